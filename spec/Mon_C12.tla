------------------------------ MODULE Mon_C12 ------------------------------
(* C12 - PES headers and timestamps are decoded and encoded per ISO 13818-1.
   Trace (harness/codec_pes.go):
     wvec class v paylen wb wn werr got gerr glen gpdg pdg
          v: header value handed to the real writePESHeader (verif export) with paylen payload bytes to follow;
          wb/wn/werr: its bytes, count, error; got/glen/gpdg: header, data length and digest parsed by the real
          parsePESData from wb || payload; pdg: digest of the payload
     pvec class v plen hstuff avail b got gerr glen trickraw
          parse-only: b = reference bytes built by the harness's twin for value v (TLC re-derives them), followed by
          avail payload bytes; plen as put on the wire
     dur  base ext secs nanos                       ClockReference{base, ext}.Duration()
   Rules: wb = Encode(v, WriterPLen(v, paylen), 0); got = v and the payload comes back;
          twin bytes = Encode(v, plen, hstuff); got = v; data length follows PES_packet_length;
          Duration = (base * 300 + ext) / 27 MHz truncated to nanoseconds once (the sum first); Time() = the same count from the Unix epoch. *)
EXTENDS MonBase, PESEncode
VARIABLES l, st
vars == <<l, st>>
Init == l = 1 /\ st = [tr |-> "none", at |-> 0]
\* sidclass names the stream ids the standard exempts from the optional header besides padding_stream / private_stream_2 (the two the library exempts)
SidClass(e) == IF "v" \in DOMAIN e /\ "sid" \in DOMAIN e.v /\ e.v.sid \in {188, 240, 241, 242, 248, 255} THEN "no-optional-header-id-other-than-0xBE-0xBF" ELSE "other"
V(kind, s, e, more) == [prop |-> "C12", kind |-> kind, trace |-> s.tr, at |-> s.at, class |-> e.class, sidclass |-> SidClass(e)] @@ more

FirstDiff(a, b) == IF Len(a) # Len(b) THEN -Len(a) ELSE IF a = b THEN 0 ELSE CHOOSE k \in 1..Len(a) : a[k] # b[k] /\ \A j \in 1..(k-1) : a[j] = b[j]

OnW(s, e) ==
  LET want == Encode(e.v, WriterPLen(e.v, e.paylen), 0)
      s1 == RepIf(e.werr # "nil" \/ e.wb # want \/ e.wn # Len(want), s, V("write-differs-from-reference-encoding", s, e,
                     [werr |-> e.werr, wn |-> e.wn, wantn |-> Len(want), firstdiff |-> FirstDiff(e.wb, want)]))
      okw == e.werr = "nil" /\ e.wb = want
      s2 == RepIf(okw /\ (e.gerr # "nil" \/ e.got # e.v), s1, V("parse-differs-from-value", s, e, [gerr |-> e.gerr]))
  IN RepIf(okw /\ e.gerr = "nil" /\ (e.glen # e.paylen \/ e.gpdg # e.pdg), s2, V("payload-boundary", s, e, [glen |-> e.glen, want |-> e.paylen]))

OnP(s, e) ==
  LET want == Encode(e.v, e.plen, e.hstuff)
      hl == Len(want)
      explen == IF e.plen = 0 THEN e.avail ELSE 6 + e.plen - hl          \* data bytes PES_packet_length announces
      experr == e.plen # 0 /\ (6 + e.plen > hl + e.avail \/ 6 + e.plen < hl)
  IN IF e.b # want THEN Rep(s, V("twin-differs-from-reference-encoding", s, e, [firstdiff |-> FirstDiff(e.b, want)]))   \* harness defect, surfaces as exit 2
     ELSE IF experr THEN RepIf(e.gerr = "nil", s, V("length-beyond-data-accepted", s, e, [plen |-> e.plen, avail |-> e.avail, glen |-> e.glen]))
     ELSE LET s1 == RepIf(e.gerr # "nil" \/ e.got # e.v, s, V("parse-differs-from-value", s, e, [gerr |-> e.gerr]))
          IN RepIf(e.gerr = "nil" /\ e.glen # explen, s1, V("payload-boundary", s, e, [glen |-> e.glen, want |-> explen, plen |-> e.plen]))

OnTrick(s, e) == RepIf(e.got # TrickDecode(e.raw), s, V("trick-mode-decode", s, e, [raw |-> e.raw, got |-> e.got, want |-> TrickDecode(e.raw)]))

OnDur(s, e) ==
  LET got == <<e.secs, e.nanos>> IN
  LET s1 == RepIf(got # DurationHi(e.base, e.ext), s,       \* the sum, then truncated to nanoseconds (not each term truncated on its own)
                  V("duration", s, e, [base |-> e.base, ext |-> e.ext, got |-> got, want |-> DurationHi(e.base, e.ext)]))
  \* Time(): the same count of nanoseconds, taken from the Unix epoch
  IN RepIf("tsecs" \in DOMAIN e /\ <<e.tsecs, e.tnanos>> # DurationHi(e.base, e.ext), s1,
           V("time", s, e, [base |-> e.base, ext |-> e.ext, got |-> <<e.tsecs, e.tnanos>>, want |-> DurationHi(e.base, e.ext)]))

Step(s, e, i) ==
  LET s0 == [s EXCEPT !.at = i] IN
  CASE e.ev = "reset" -> [tr |-> e.t, at |-> i]
    [] e.ev = "wvec" -> OnW(s0, e)
    [] e.ev = "pvec" -> OnP(s0, e)
    [] e.ev = "trick" -> OnTrick(s0, e)
    [] e.ev = "dur" -> OnDur(s0, e)
    \* units through one Muxer and one Demuxer: per PID, header for header and byte for byte what was written
    [] e.ev = "pstream" -> RepIf(e.got # e.sent, s0, V("stream-unit-differs-from-what-was-written", s0, e,
                                  [pid |-> e.pid, nsent |-> Len(e.sent), ngot |-> Len(e.got),
                                   first |-> IF \E k \in 1..Len(e.sent) : k > Len(e.got) \/ e.got[k] # e.sent[k]
                                             THEN CHOOSE k \in 1..Len(e.sent) : (k > Len(e.got) \/ e.got[k] # e.sent[k]) /\ \A j \in 1..(k-1) : e.got[j] = e.sent[j]
                                             ELSE Len(e.sent) + 1]))
    [] OTHER -> s

Next == /\ l <= Len(Trace)
        /\ l' = l + 1
        /\ st' = Step(st, Trace[l], l)
        /\ (l = Len(Trace)) => PrintT("DONE " \o ToString(l))
Spec == Init /\ [][Next]_vars
=============================================================================
