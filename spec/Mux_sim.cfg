SPECIFICATION Spec
CONSTANTS
  PIDS = {256, 257}
  RESV = {17}
  Period = 5
  MaxOps = 48
  Dev = {}
  LENS = {1, 170, 171, 355, 1000}
  HDRS = {"pts", "none", "full"}
  AFS = {"none", "raipcr", "priv10", "big", "bigrai", "huge"}
  BIGS = {FALSE, TRUE}
  PKTS = {"null", "toobig", "pcr", "hugeaf", "hugestuff"}
VIEW View
ACTION_CONSTRAINT ExportEdge
CHECK_DEADLOCK FALSE
