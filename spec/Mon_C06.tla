------------------------------ MODULE Mon_C06 ------------------------------
(* C06 - duplicate packets are harmless; packet loss never yields spliced or
   foreign data.  Trace (harness/demux.go:runPair): the same stream is demuxed
   twice by the real Demuxer, without ("clean") and with ("fault") the channel's
   faults:
     unit    id pid t items            the units the stream carries
     fault   f (dup|drop) pid u prevu  the unit the faulted packet belongs to and the unit preceding it on the PID
     deliver run pid kind cdg u        cdg: digest of the delivered unit (DemuxerData without FirstPacket); u: the unit it equals (0: none)
     derr run / eof run / outofdomain
   Judged at the faulted run's eof:
     dup only : on PES PIDs the faulted sequence equals the clean one; on PSI PIDs the clean sequence is a
                subsequence of the faulted one and nothing new appears
     loss     : every faulted delivery equals a clean delivery of the same PID; PIDs without a fault are
                unaffected; a clean delivery missing from the faulted run belongs to a unit that lost a packet
                or to the unit preceding a gap.
   Errors returned on the faulted stream are not violations (DESIGN.md 7). *)
EXTENDS MonBase
VARIABLES l, st
vars == <<l, st>>
St0(t, i) == [tr |-> t, pmtpids |-> {}, role |-> EmptyFn, faults |-> <<>>, clean |-> <<>>, fault |-> <<>>, at |-> i, skip |-> FALSE]
Init == l = 1 /\ st = St0("none", 0)
V(kind, s, more) == [prop |-> "C06", kind |-> kind, trace |-> s.tr, at |-> s.at] @@ more

PerPid(q, pid) == SelectSeq(q, LAMBDA x : x.pid = pid)
Dgs(q) == [i \in DOMAIN q |-> q[i].cdg]
RECURSIVE IsSubseq(_, _)
IsSubseq(a, b) == IF a = <<>> THEN TRUE ELSE IF b = <<>> THEN FALSE
                  ELSE IF Head(a) = Head(b) THEN IsSubseq(Tail(a), Tail(b)) ELSE IsSubseq(a, Tail(b))
SeqSet(q) == {q[i] : i \in DOMAIN q}

Judge(s) ==
  LET fpids == {s.faults[i].pid : i \in DOMAIN s.faults}
      \* a PMT PID is only known through a PAT (C07): when PID 0 is faulted, PMT PIDs are outside the statement
      exempt == IF 0 \in fpids THEN s.pmtpids ELSE {}
      pids == ({s.clean[i].pid : i \in DOMAIN s.clean} \cup {s.fault[i].pid : i \in DOMAIN s.fault}) \ exempt
      dupOnly == \A i \in DOMAIN s.faults : s.faults[i].f = "dup"
      hit == UNION {{s.faults[i].u, s.faults[i].prevu} : i \in {j \in DOMAIN s.faults : s.faults[j].f = "drop"}}
      kindOfFault == IF dupOnly THEN "dup" ELSE "loss"
      \* first problem found, as a record, or "none"
      probs ==
        { [kind |-> "other-pid-affected", pid |-> p, fk |-> kindOfFault, pusi |-> FALSE] :
              p \in {q \in pids \ fpids : Dgs(PerPid(s.fault, q)) # Dgs(PerPid(s.clean, q))} }
        \cup
        { [kind |-> "foreign-or-altered-unit", pid |-> p, fk |-> kindOfFault,
           pusi |-> LET bad == SelectSeq(PerPid(s.fault, p), LAMBDA x : x.cdg \notin SeqSet(Dgs(PerPid(s.clean, p)))) IN bad[1].fp_pusi] :
              p \in {q \in pids : \E i \in DOMAIN s.fault : s.fault[i].pid = q /\ s.fault[i].cdg \notin SeqSet(Dgs(PerPid(s.clean, q)))} }
        \cup
        (IF dupOnly
         THEN { [kind |-> "duplicate-removed-data", pid |-> p, fk |-> "dup", pusi |-> s.faults[1].pusi] :
                   p \in {q \in pids : IF (q \in DOMAIN s.role /\ s.role[q] = "pes")
                                       THEN Dgs(PerPid(s.fault, q)) # Dgs(PerPid(s.clean, q))
                                       ELSE ~IsSubseq(Dgs(PerPid(s.clean, q)), Dgs(PerPid(s.fault, q)))} }
         ELSE { [kind |-> "missing-unit-not-hit-by-loss", pid |-> p, fk |-> "loss", pusi |-> FALSE] :
                   p \in {q \in pids : \E i \in DOMAIN s.clean : s.clean[i].pid = q
                                           /\ s.clean[i].cdg \notin SeqSet(Dgs(PerPid(s.fault, q))) /\ s.clean[i].u \notin hit} })
  IN probs

OnEOF(s, e, i) ==
  IF e.run # "fault" \/ s.skip THEN s
  ELSE LET s0 == [s EXCEPT !.at = i] pr == Judge(s0) IN
       IF pr = {} THEN s0
       ELSE LET x == CHOOSE y \in pr : TRUE
            IN Rep(s0, V(x.kind, s0, [pid |-> x.pid, fk |-> x.fk, pusi |-> x.pusi, n |-> Cardinality(pr),
                                      nclean |-> Len(s.clean), nfault |-> Len(s.fault)]))

Step(s, e, i) ==
  CASE e.ev = "reset" -> St0(e.t, i)
    [] e.ev = "unit" -> [s EXCEPT !.role = SetFn(s.role, e.pid, e.t),
                                    !.pmtpids = IF \E k \in DOMAIN e.items : e.items[k].k = "pmt" THEN s.pmtpids \cup {e.pid} ELSE s.pmtpids]
    [] e.ev = "fault" -> [s EXCEPT !.faults = Append(s.faults, [f |-> e.f, pid |-> e.pid, u |-> e.u, prevu |-> e.prevu, pusi |-> e.pusi])]
    [] e.ev = "outofdomain" -> [s EXCEPT !.skip = TRUE]
    [] e.ev = "deliver" ->
         LET d == [pid |-> e.pid, cdg |-> e.cdg, u |-> e.u, kind |-> e.kind, fp_pusi |-> Get(e, "fp_pusi", TRUE)] IN
         IF e.run = "clean" THEN [s EXCEPT !.clean = Append(s.clean, d)]
         ELSE LET s1 == [s EXCEPT !.fault = Append(s.fault, d)] IN
              \* a unit delivered from the faulted stream carries the first packet of the clean run's unit (a duplicate is dropped whole: its
              \* header and adaptation field - a PCR stamped again - do not replace the original's); PES only: a duplicated table packet is
              \* delivered a second time, with the duplicate as its first packet (13.4); duplicate-only scenarios: after a loss "a unit of the
              \* loss-free output" is judged by content (a unit start lost together with exactly 15 packets behind an equal unit start is
              \* indistinguishable from a duplicate - 13.4)
              RepIf(~s.skip /\ e.kind = "pes" /\ ~Get(e, "fpsame", TRUE) /\ ~(\E k \in DOMAIN s.faults : s.faults[k].f = "drop"), s1, [prop |-> "C06", kind |-> "delivered-unit-first-packet-altered", trace |-> s.tr, at |-> i, pid |-> e.pid, u |-> e.u])
    [] e.ev = "eof" -> OnEOF(s, e, i)
    [] OTHER -> s

Next == /\ l <= Len(Trace)
        /\ l' = l + 1
        /\ st' = Step(st, Trace[l], l)
        /\ (l = Len(Trace)) => PrintT("DONE " \o ToString(l))
Spec == Init /\ [][Next]_vars
=============================================================================
