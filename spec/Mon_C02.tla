------------------------------ MODULE Mon_C02 ------------------------------
(* C02 - the demuxer delivers exactly the units a well-formed stream carries,
   whatever the packetisation.  Trace (harness/demux.go:runDemux):
     reset   t
     unit    id pid t items (<<[k, ident, len, pdg]>>: the PES / the sections the unit carries) lastpkt
             (1-based index of the packet carrying the last byte of the unit's last section)
     deliver pid kind ident len pdg pulled (bytes pulled from the io.Reader so far)
     derr / eof / hang
   Per PID the deliveries must equal, in order, the items of that PID's units
   (FIFO head rule); a PAT/PMT must be delivered with pulled = 188 * lastpkt
   (no read-ahead); nothing may be left at eof; no error on a well-formed stream. *)
EXTENDS MonBase
VARIABLES l, st
vars == <<l, st>>
St0(t, i) == [tr |-> t, exp |-> EmptyFn, at |-> i, packing |-> "units"]
Init == l = 1 /\ st = St0("none", 0)
\* packing: "units" = every payload unit is self-contained (pointer filler is stuffing); "section-tail-behind-next-pointer-field" = a section
\* ends behind the pointer_field of the packet in which the next one starts
V(kind, s, more) == [prop |-> "C02", kind |-> kind, trace |-> s.tr, at |-> s.at, packing |-> s.packing] @@ more
Q(s, pid) == IF pid \in DOMAIN s.exp THEN s.exp[pid] ELSE <<>>

OnUnit(s, e) ==
  LET add == [k \in DOMAIN e.items |-> e.items[k] @@ [lastpkt |-> e.lastpkt, unit |-> e.id, opt |-> e.opt]]
  IN [s EXCEPT !.exp = SetFn(s.exp, e.pid, Q(s, e.pid) \o add)]

\* items of a PMT-PID unit that started before its PAT was complete are optional (a receiver cannot know the PID is a PMT PID
\* yet): they may be skipped, delivered late, or delivered
Matches(w, e) == IF w.k = "pes" THEN e.kind = "pes" /\ e.len = w.len /\ e.pdg = w.pdg ELSE e.kind = w.k /\ e.ident = w.ident
RECURSIVE SkipOpt(_, _)
SkipOpt(q, e) == IF q # <<>> /\ Head(q).opt /\ ~Matches(Head(q), e) THEN SkipOpt(Tail(q), e) ELSE q

OnDeliver(s, e, i) ==
  LET s0 == [s EXCEPT !.at = i]
      q == SkipOpt(Q(s, e.pid), e)
  IN IF q = <<>> THEN Rep([s0 EXCEPT !.exp = SetFn(s.exp, e.pid, q)], V("unexpected-delivery", s0, [pid |-> e.pid, dkind |-> e.kind, ident |-> e.ident]))
     ELSE LET w == Head(q)
              s1 == [s0 EXCEPT !.exp = SetFn(s.exp, e.pid, Tail(q))]
              same == Matches(w, e)
              ahead == w.k \in {"pat", "pmt"} /\ ~w.opt /\ e.pulled # 188 * w.lastpkt
          IN IF ~same THEN Rep(s1, V("lost-or-altered", s0, [pid |-> e.pid, wantk |-> w.k, gotk |-> e.kind, want |-> w.ident, got |-> e.ident,
                                                              wlen |-> Get(w, "len", 0), glen |-> e.len, unit |-> w.unit]))
             ELSE RepIf(ahead, s1, V("read-ahead", s0, [pid |-> e.pid, dkind |-> e.kind, pulled |-> e.pulled, lastpkt |-> w.lastpkt, unit |-> w.unit]))

OnEOF(s, i) ==
  LET s0 == [s EXCEPT !.at = i]
      left == {p \in DOMAIN s.exp : \E k \in DOMAIN s.exp[p] : ~s.exp[p][k].opt}
  IN RepIf(left # {}, s0, V("not-delivered", s0, [pids |-> left,
             first |-> LET p == CHOOSE p \in left : TRUE IN [pid |-> p, k |-> Head(s.exp[p]).k, unit |-> Head(s.exp[p]).unit, n |-> Len(s.exp[p])]]))

Step(s, e, i) ==
  CASE e.ev = "reset" -> [St0(e.t, i) EXCEPT !.packing = Get(e, "packing", "units")]
    [] e.ev = "unit" -> OnUnit(s, e)
    [] e.ev = "deliver" -> OnDeliver(s, e, i)
    [] e.ev = "derr" -> Rep([s EXCEPT !.at = i], V(IF e.panic THEN "panic" ELSE "error-on-well-formed-stream", [s EXCEPT !.at = i], [msg |-> e.msg]))
    [] e.ev = "hang" -> Rep([s EXCEPT !.at = i], V("no-end-of-stream", [s EXCEPT !.at = i], [calls |-> e.calls]))
    [] e.ev = "eof" -> OnEOF(s, i)
    \* one PID silent for `between` packets of another PID with its last unit pending, one unit whose two packets lie that far apart (counted)
    [] e.ev = "longgap" -> RepIf(e.n100 # 1 \/ e.n102 # 1 \/ e.n101 # e.between \/ e.errs # 0 \/ ~e.eof, [s EXCEPT !.at = i],
                                  V("not-delivered", [s EXCEPT !.at = i], [pids |-> {256, 258}, first |-> [pid |-> 256, k |-> "pes", unit |-> e.n100, n |-> e.n102]]))
    [] OTHER -> s

Next == /\ l <= Len(Trace)
        /\ l' = l + 1
        /\ st' = Step(st, Trace[l], l)
        /\ (l = Len(Trace)) => PrintT("DONE " \o ToString(l))
Spec == Init /\ [][Next]_vars
=============================================================================
