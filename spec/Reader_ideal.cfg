SPECIFICATION Spec
CONSTANTS
  Sizes = {188, 189, 192}
  Kinds = {"seek", "bufio", "plain"}
  NPKS = {0, 1, 2, 3}
  EXTRAS = {0, 1, 100}
  AUTOS = {TRUE}
  Short = TRUE
  Dev = {}
INVARIANTS SameAsFull EndsInBoundedCalls EOFAbsorbing
PROPERTY CancelStops
CHECK_DEADLOCK FALSE
