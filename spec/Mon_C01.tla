------------------------------ MODULE Mon_C01 ------------------------------
(* C01 - mux -> demux round trip returns every PES and table exactly once,
   unaltered.  Trace (harness/mux.go with demux=true): the muxer call/pkt events
   of C04, followed by what a real Demuxer delivers on the recorded bytes:
     deliver pid kind [len pdg hdr af | progs | streams pcr] / demuxerr / eof / hang
   The monitor keeps, per PID, the FIFO of successful WriteData calls and the
   FIFOs of emitted PAT and PMT packets (with the stream configuration current
   at the emission); each delivery must equal the head of its FIFO (the
   "Dequeue is enabled only when Head(queue) = e" rule), and at eof all FIFOs
   must be empty. *)
EXTENDS MonBase, TSBytes
VARIABLES l, st
vars == <<l, st>>

St0(t, i) == [ tr |-> t, pend |-> EmptyFn, patq |-> 0, pmtq |-> <<>>, streams |-> <<>>, pcr |-> 0,
               op |-> "none", at |-> i, done |-> FALSE ]
Init == l = 1 /\ st = St0("none", 0)

V(kind, s, more) == [prop |-> "C01", kind |-> kind, trace |-> s.tr, at |-> s.at] @@ more
Q(s, pid) == IF pid \in DOMAIN s.pend THEN s.pend[pid] ELSE <<>>

OnCall(s, e, i) ==
  LET s0 == [s EXCEPT !.op = e.op, !.at = i] IN
  CASE e.op = "add" /\ e.err = "nil" ->
         [s0 EXCEPT !.streams = Append(s.streams, [pid |-> e.apid, st |-> e.st, desc |-> e.desc])]
    [] e.op = "remove" /\ e.err = "nil" ->
         [s0 EXCEPT !.streams = SelectSeq(s.streams, LAMBDA x : x.pid # e.pid)]
    [] e.op = "setpcr" -> [s0 EXCEPT !.pcr = e.pid]
    [] e.op = "data" /\ e.err = "nil" ->
         [s0 EXCEPT !.pend = SetFn(s.pend, e.pid, Append(Q(s, e.pid),
              [dg |-> e.dg, len |-> e.len, hdr |-> e.hdr, af |-> e.af, afbig |-> e.afbig, at |-> i]))]
    [] OTHER -> s0

OnPkt(s, e, i) ==
  LET h == Hdr(e.b) IN
  IF s.op = "packet" THEN s
  ELSE IF h.pid = PATPID THEN [s EXCEPT !.patq = s.patq + 1]
  ELSE IF h.pid = PMTPID THEN [s EXCEPT !.pmtq = Append(s.pmtq, [pcr |-> s.pcr, streams |-> s.streams])]
  ELSE s

OnDeliver(s, e, i) ==
  LET s0 == [s EXCEPT !.at = i] IN
  CASE e.kind = "pes" ->
         LET q == Q(s, e.pid) IN
         IF q = <<>> THEN Rep(s0, V("unexpected-pes", s0, [pid |-> e.pid, len |-> e.len]))
         ELSE LET w == Head(q)
                  s1 == [s0 EXCEPT !.pend = SetFn(s.pend, e.pid, Tail(q))]
                  bad == IF e.len # w.len \/ e.pdg # w.dg THEN "payload"
                         ELSE IF e.hdr # w.hdr THEN "header"
                         ELSE IF (~w.afbig) /\ e.af # w.af THEN "adaptation-field"
                         ELSE IF ~e.fp_pusi THEN "first-packet"
                         ELSE "none"
              IN RepIf(bad # "none", s1, V("pes-altered", s0, [pid |-> e.pid, field |-> bad, wrote |-> w.at, wlen |-> w.len, glen |-> e.len]))
    [] e.kind = "pat" ->
         LET s1 == [s0 EXCEPT !.patq = Max2(0, s.patq - 1)]
             bad == IF s.patq = 0 THEN "unexpected" ELSE IF e.progs # << [pid |-> PMTPID, pn |-> 1] >> THEN "content" ELSE "none"
         IN RepIf(bad # "none", s1, V("pat-" \o bad, s0, [progs |-> e.progs]))
    [] e.kind = "pmt" ->
         IF s.pmtq = <<>> THEN Rep(s0, V("pmt-unexpected", s0, [pid |-> e.pid]))
         ELSE LET w == Head(s.pmtq)
                  s1 == [s0 EXCEPT !.pmtq = Tail(s.pmtq)]
                  ok == e.pid = PMTPID /\ e.pn = 1 /\ e.pcr = w.pcr /\ e.streams = w.streams /\ e.pinfo = <<>>
              IN RepIf(~ok, s1, V("pmt-content", s0, [gotpcr |-> e.pcr, wantpcr |-> w.pcr,
                                     got |-> [k \in DOMAIN e.streams |-> e.streams[k].pid],
                                     want |-> [k \in DOMAIN w.streams |-> w.streams[k].pid]]))
    [] OTHER -> Rep(s0, V("unexpected-" \o e.kind, s0, [pid |-> e.pid]))

OnEOF(s, i) ==
  LET s0 == [s EXCEPT !.at = i, !.done = TRUE]
      lostP == {p \in DOMAIN s.pend : s.pend[p] # <<>>}
      s1 == RepIf(lostP # {}, s0, V("pes-lost", s0, [pids |-> lostP,
                                     first |-> LET p == CHOOSE p \in lostP : TRUE IN [pid |-> p, wrote |-> Head(s.pend[p]).at, len |-> Head(s.pend[p]).len, n |-> Len(s.pend[p])]]))
      s2 == RepIf(s.patq # 0, s1, V("pat-lost", s0, [n |-> s.patq]))
  IN RepIf(s.pmtq # <<>>, s2, V("pmt-lost", s0, [n |-> Len(s.pmtq)]))

Step(s, e, i) ==
  CASE e.ev = "reset" -> St0(e.t, i)
    [] e.ev = "call" -> OnCall(s, e, i)
    [] e.ev = "pkt" -> OnPkt(s, e, i)
    [] e.ev = "deliver" -> OnDeliver(s, e, i)
    [] e.ev = "demuxerr" -> Rep([s EXCEPT !.at = i], V("error-reported", [s EXCEPT !.at = i], [msg |-> e.msg]))
    [] e.ev = "hang" -> Rep([s EXCEPT !.at = i], V("demuxer-did-not-end", [s EXCEPT !.at = i], [x |-> 0]))
    [] e.ev = "eof" -> OnEOF(s, i)
    [] OTHER -> s

Next == /\ l <= Len(Trace)
        /\ l' = l + 1
        /\ st' = Step(st, Trace[l], l)
        /\ (l = Len(Trace)) => PrintT("DONE " \o ToString(l))
Spec == Init /\ [][Next]_vars
=============================================================================
