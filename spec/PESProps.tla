------------------------------ MODULE PESProps ------------------------------
(* Sanity of the reference PES layout and of the exact Duration arithmetic over an enumerated space:
   header_data_length equals the bytes that follow; known vectors; Duration of known clock values. *)
EXTENDS PESEncode, TLC
VARIABLE k
Init == k \in 0..32
Next == UNCHANGED k
TSVal == IF k = 32 THEN <<131071, 65535>> ELSE IF k < 16 THEN <<0, 2 ^ k>> ELSE <<2 ^ (k - 16), 0>>
Opt == [scr |-> 0, prio |-> FALSE, align |-> TRUE, copy |-> FALSE, orig |-> TRUE, ind |-> 3, pts |-> <<TSVal>>, dts |-> <<TSVal>>,
        escr |-> <<TSVal, 300>>, esrate |-> <<k>>, trick |-> << <<0, 1, 1, 2>> >>, aci |-> <<k>>, crc |-> <<>>,
        ext |-> <<[priv |-> <<>>, pack |-> <<>>, seq |-> <<k, 1, k>>, pstd |-> <<1, k>>, ext2 |-> << <<1, 2, 3>> >>]>>]
H == [sid |-> 192, opt |-> <<Opt>>]
LenConsistent == LET b == Encode(H, 0, k % 5) IN b[9] = Len(b) - 9 /\ SubSeq(b, 1, 4) = <<0, 0, 1, 192>> /\ b[7] \div 64 = 2
\* PTS of all ones: 0x2F FF FF FF FF with prefix 0010 ; 90000 ticks = exactly one second ; 27 MHz extension 27 = 1000 ns
Known == /\ TS33(2, <<131071, 65535>>) = <<47, 255, 255, 255, 255>>
         /\ TS33(2, <<0, 0>>) = <<33, 0, 1, 0, 1>>
         /\ DurationLo(<<1, 24464>>, 0) = <<1, 0>>
         /\ DurationLo(<<0, 1>>, 0) = <<0, 11111>>
         /\ DurationLo(<<0, 0>>, 27) = <<0, 1000>>
         /\ DurationLo(<<131071, 65535>>, 511) = <<95443, 717696702>>
=============================================================================
