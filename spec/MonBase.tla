------------------------------ MODULE MonBase ------------------------------
(* Shared definitions of the property monitors (trace specifications).
   A monitor reads one ndjson trace recorded from the real code (TraceFile),
   consumes every event (total monitor), and prints one "VIOL {json}" line for
   each step at which its property's predicate is false.  The orchestrator
   (/verif/check) requires the final "DONE n" line (all events consumed). *)
EXTENDS Integers, Sequences, FiniteSets, TLC, Json, SequencesExt, Functions
CONSTANT TraceFile
Trace == ndJsonDeserialize(TraceFile)

\* Rep(x, v): value x, side effect: report violation record v
Rep(x, v) == IF PrintT("VIOL " \o ToJson(v)) THEN x ELSE x
\* RepIf(c, x, v): report v when c holds
RepIf(c, x, v) == IF c THEN Rep(x, v) ELSE x

Has(r, f) == f \in DOMAIN r
Get(r, f, d) == IF f \in DOMAIN r THEN r[f] ELSE d
Min2(a, b) == IF a < b THEN a ELSE b
Max2(a, b) == IF a > b THEN a ELSE b
Pow2(n) == 2 ^ n
BitAt(x, k) == (x \div Pow2(k)) % 2          \* bit k (0 = LSB) of a non-negative int
SetFn(f, k, v) == [x \in DOMAIN f \cup {k} |-> IF x = k THEN v ELSE f[x]]
DelFn(f, k) == [x \in DOMAIN f \ {k} |-> f[x]]
EmptyFn == [x \in {} |-> 0]
AllIn(s, lo, hi, v) == \A i \in lo..hi : s[i] = v
=============================================================================
