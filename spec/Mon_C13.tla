------------------------------ MODULE Mon_C13 ------------------------------
(* C13 - PSI/SI tables are decoded field for field; PAT and PMT are encoded
   exactly.  Trace (harness/codec_psi.go):
     tvec class ptr enc secs trail b got gerr gptr data
          a PSI unit: pointer_field, section values (enc: with full descriptor values, for the reference encoder;
          secs: as compared - descriptors without the redundant Length), trailing 0xFF count; b: the unit's bytes from the
          harness's twin encoder; got/gptr/gerr: sections parsed by the real parsePSIData (verif export) with header
          fields, section_length (slen) and CRC; data: what the real Demuxer delivers for the unit (DemuxerData bodies)
     wvec class ptr secs wb wn werr      the real writePSIData (verif export) for PAT / PMT values with any header fields
     mvec class ok pat pmt patv pmtv     the payloads of the PAT and PMT packets the real Muxer emitted, with the values it was
                                         configured with (version taken from the packet)
   Rules: b = Unit(ptr, enc, trail) (PSI.tla; re-derives the twin); parsed sections = secs field for field, with
   slen = SectionLength and crc = the bitwise CRC; Demuxer data = secs' bodies and table_id_extension;
   wb = Unit(ptr, secs, 0); Muxer payloads = Unit(0, <<value>>, padding to 184). *)
EXTENDS MonBase, PSI
VARIABLES l, st
vars == <<l, st>>
Init == l = 1 /\ st = [tr |-> "none", at |-> 0]
V(kind, s, e, more) == [prop |-> "C13", kind |-> kind, trace |-> s.tr, at |-> s.at, class |-> e.class] @@ more
FirstDiff(a, b) == IF Len(a) # Len(b) THEN -Len(a) ELSE IF a = b THEN 0 ELSE CHOOSE k \in 1..Len(a) : a[k] # b[k] /\ \A j \in 1..(k-1) : a[j] = b[j]
Strip(g) == [x \in DOMAIN g \ {"slen", "crc"} |-> g[x]]
BodyOf(v) == [x \in DOMAIN v \ {"tid", "ssi", "priv", "ver", "cni", "sn", "lsn", "slen", "crc"} |-> v[x]]

OnT(s, e) ==
  LET want == Unit(e.ptr, e.encall, e.trail)    \* encall: every section of the unit, undecoded tables included; enc/secs: the decoded ones
      n == Len(e.secs)
  IN IF e.b # want THEN Rep(s, V("twin-differs-from-reference-encoding", s, e, [firstdiff |-> FirstDiff(e.b, want)]))
     ELSE LET headersOK == /\ e.gerr = "nil" /\ e.gptr = e.ptr /\ Len(e.got) = n
                           /\ \A i \in 1..n : Strip(e.got[i]) = e.secs[i]
              lensOK == e.gerr # "nil" \/ Len(e.got) # n \/
                        \A i \in 1..n : e.got[i].slen = SectionLength(e.enc[i]) /\ e.got[i].crc = CRCOf(e.enc[i])
              dataOK == /\ Len(e.data) = n
                        /\ \A i \in 1..n : e.data[i] = BodyOf(e.secs[i]) @@ [ext |-> e.secs[i].ext]
              s1 == RepIf(~headersOK, s, V("parsed-section-differs-from-value", s, e,
                           [gerr |-> e.gerr, ngot |-> Len(e.got), n |-> n,
                            which |-> IF e.gerr # "nil" \/ Len(e.got) # n THEN 0 ELSE CHOOSE i \in 1..n : Strip(e.got[i]) # e.secs[i] \/ i = n]))
              s1b == RepIf(e.gerr = "nil" /\ e.gopq # e.nopq, s1, V("undecoded-section-not-skipped-by-its-length", s, e, [gopq |-> e.gopq, nopq |-> e.nopq]))
              s2 == RepIf(~lensOK, s1b, V("section-length-or-crc-field", s, e, [x |-> 0]))
          IN RepIf(~dataOK, s2, V("demuxer-data-differs-from-value", s, e, [ndata |-> Len(e.data), n |-> n, derrs |-> e.derrs]))

OnW(s, e) ==
  LET want == UnitF(e.ptr, 0, e.secs, 0) IN          \* the writer fills the pointer filler with 0x00
  RepIf(e.werr # "nil" \/ e.wb # want \/ e.wn # Len(want), s, V("write-differs-from-reference-encoding", s, e,
           [werr |-> e.werr, wn |-> e.wn, wantn |-> Len(want), firstdiff |-> FirstDiff(e.wb, want)]))

OnM(s, e) ==
  IF ~e.ok THEN Rep(s, V("muxer-tables-not-emitted", s, e, [err |-> e.err, n |-> e.n]))
  ELSE LET wpat == Unit(0, <<e.patv>>, 0)  wpmt == Unit(0, <<e.pmtv>>, 0)
           patOK == Len(wpat) <= 184 /\ e.pat = wpat \o Fill(255, 184 - Len(wpat))
           pmtOK == Len(wpmt) <= 184 /\ e.pmt = wpmt \o Fill(255, 184 - Len(wpmt))
           s1 == RepIf(~patOK, s, V("muxer-pat-differs-from-reference-encoding", s, e, [firstdiff |-> FirstDiff(SubSeq(e.pat, 1, Min2(184, Len(wpat))), wpat)]))
       IN RepIf(~pmtOK, s1, V("muxer-pmt-differs-from-reference-encoding", s, e, [firstdiff |-> FirstDiff(SubSeq(e.pmt, 1, Min2(184, Len(wpmt))), wpmt), wantn |-> Len(wpmt)]))

Step(s, e, i) ==
  LET s0 == [s EXCEPT !.at = i] IN
  CASE e.ev = "reset" -> [tr |-> e.t, at |-> i]
    [] e.ev = "tvec" -> OnT(s0, e)
    [] e.ev = "wvec" -> OnW(s0, e)
    [] e.ev = "mvec" -> OnM(s0, e)
    [] OTHER -> s

Next == /\ l <= Len(Trace)
        /\ l' = l + 1
        /\ st' = Step(st, Trace[l], l)
        /\ (l = Len(Trace)) => PrintT("DONE " \o ToString(l))
Spec == Init /\ [][Next]_vars
=============================================================================
