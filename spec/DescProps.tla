----------------------------- MODULE DescProps -----------------------------
(* Known vectors for the descriptor layouts (taken from the standards' examples / hand-encoded), so that the reference
   itself is anchored independently of the library. *)
EXTENDS Descriptors, TLC
VARIABLE k
Init == k = 0
Next == UNCHANGED k
Known ==
  /\ Desc([tag |-> 82, k |-> "streamid", len |-> 0, ctag |-> 7]) = <<82, 1, 7>>
  /\ Desc([tag |-> 10, k |-> "iso639", len |-> 0, lang |-> <<101, 110, 103>>, type |-> 1]) = <<10, 4, 101, 110, 103, 1>>
  /\ Desc([tag |-> 14, k |-> "maxbitrate", len |-> 0, rate |-> 50]) = <<14, 3, 192, 0, 1>>
  /\ Desc([tag |-> 5, k |-> "registration", len |-> 0, fid |-> <<18504, 17229>>, info |-> <<>>]) = <<5, 4, 72, 72, 67, 77>>
  /\ Desc([tag |-> 86, k |-> "teletext", len |-> 0, items |-> <<[lang |-> <<102, 114, 97>>, type |-> 1, mag |-> 1, page |-> 0]>>]) = <<86, 5, 102, 114, 97, 9, 0>>
  /\ Desc([tag |-> 69, k |-> "vbidata", len |-> 0, services |-> <<[id |-> 1, lines |-> <<<<TRUE, 7>>, <<FALSE, 22>>>>]>>]) = <<69, 4, 1, 2, 231, 214>>
  /\ Desc([tag |-> 72, k |-> "service", len |-> 0, type |-> 1, provider |-> <<65>>, name |-> <<66, 67>>]) = <<72, 6, 1, 1, 65, 2, 66, 67>>
  /\ LoopWithLength(<<>>) = <<240, 0>>
  /\ Desc([tag |-> 88, k |-> "lto", len |-> 0, items |-> <<[country |-> <<70, 82, 65>>, region |-> 0, pol |-> FALSE, off |-> 60,
                                                         toc |-> <<1993, 10, 13, 12, 45, 0>>, next |-> 120]>>])
       = <<88, 13, 70, 82, 65, 2, 1, 0, 192, 121, 18, 69, 0, 2, 0>>
=============================================================================
