------------------------------ MODULE TSEncode ------------------------------
(* Reference encoding of a transport packet (ISO/IEC 13818-1 2.4.3.2-2.4.3.5):
   header, adaptation field with PCR / OPCR / splice countdown / private data /
   extension (LTW, piecewise rate, seamless splice) / stuffing, payload, padded
   to 188 bytes.  Written from the standard's syntax tables as bit layouts.
   A packet value is the record the harness projects (harness/codec_ts.go):
     [tei, pusi, prio, pid, scr, haf, hpl, cc, af (<<>> or <<a>>), pl (bytes)]
     a = [one (one-byte form), disc, rai, espi, pcr, opcr (<<>> or <<<<hi,lo>>, ext>>), splice (<<>> or <<n>>),
          priv (<<>> or <<bytes>>), ext (<<>> or <<x>>), stuff]
     x = [ltw (<<>> or <<valid, offset>>), pw (<<>> or <<rate>>), ss (<<>> or <<type, <<hi,lo>>>>)]   *)
EXTENDS Bits
Present(f) == f # <<>>
PCRBytes(p) == Pack(W(p[1], 33) \o Ones(6) \o U(p[2], 9))
ExtBody(x) ==
  Pack(B(Present(x.ltw)) \o B(Present(x.pw)) \o B(Present(x.ss)) \o Ones(5))
  \o (IF Present(x.ltw) THEN Pack(B(x.ltw[1]) \o U(x.ltw[2], 15)) ELSE <<>>)
  \o (IF Present(x.pw) THEN Pack(Ones(2) \o U(x.pw[1], 22)) ELSE <<>>)
  \o (IF Present(x.ss) THEN TS33(x.ss[1], x.ss[2]) ELSE <<>>)
AFBody(a) ==
  Pack(B(a.disc) \o B(a.rai) \o B(a.espi) \o B(Present(a.pcr)) \o B(Present(a.opcr)) \o B(Present(a.splice)) \o B(Present(a.priv)) \o B(Present(a.ext)))
  \o (IF Present(a.pcr) THEN PCRBytes(a.pcr) ELSE <<>>)
  \o (IF Present(a.opcr) THEN PCRBytes(a.opcr) ELSE <<>>)
  \o (IF Present(a.splice) THEN << (a.splice[1] + 256) % 256 >> ELSE <<>>)      \* splice_countdown is an 8-bit two's complement number (tcimsbf, -128..127)
  \o (IF Present(a.priv) THEN <<Len(a.priv[1])>> \o a.priv[1] ELSE <<>>)
  \o (IF Present(a.ext) THEN LET xb == ExtBody(a.ext[1]) IN <<Len(xb)>> \o xb ELSE <<>>)
  \o Fill(255, a.stuff)
AFBytes(a) == IF a.one THEN <<0>> ELSE LET body == AFBody(a) IN <<Len(body)>> \o body
Header(p) == Pack(U(71, 8) \o B(p.tei) \o B(p.pusi) \o B(p.prio) \o U(p.pid, 13) \o U(p.scr, 2) \o B(p.haf) \o B(p.hpl) \o U(p.cc, 4))
Encode(p) == LET front == Header(p) \o (IF p.haf THEN AFBytes(p.af[1]) ELSE <<>>) \o (IF p.hpl THEN p.pl ELSE <<>>)
             IN front \o Fill(255, 188 - Len(front))
Fits(p) == Len(Header(p) \o (IF p.haf THEN AFBytes(p.af[1]) ELSE <<>>) \o (IF p.hpl THEN p.pl ELSE <<>>)) <= 188
=============================================================================
