----------------------------- MODULE PacketPool -----------------------------
(* The demultiplexer's packet pool, one action per critical section of the code:
     packet_pool.go  packetPool.addUnlocked / packetAccumulator.add   -> Add(p)
     data.go         isPSIComplete                                    -> PSIComplete(bytes), byte for byte
     demuxer.go      NextData: a flushed group is parsed only when its first packet starts a payload unit;
                     updateData learns PMT PIDs from a delivered PAT  -> Handle(group), Learn(programs)
     packet_pool.go  packetPool.dumpUnlocked at end of stream          -> Dump (lowest PID first)
   The alphabet is free: any header fields, any payload bytes, on any PID - not only well-formed streams.
   A packet is [pid, cc, pusi, hp, tei, disc, pl]: hp = has payload, disc = adaptation field present with
   discontinuity_indicator, pl = payload bytes.
   The operators AddStep / DumpNext are shared with the trace specification Mon_Acc.tla, which replays traces
   recorded from the real Demuxer (accumulator hook decisions, groups handed to a PacketsParser, PATs delivered). *)
EXTENDS Integers, Sequences, FiniteSets, TLC, Json

CONSTANTS PIDS,       \* PIDs of the model-checked instance
          CCMOD,      \* 16 in the code; smaller in the model-checked instance
          PAYLOADS,   \* payload byte strings of the model-checked instance
          PATPIDS,    \* sets of PMT PIDs a delivered PAT may announce (Learn)
          CCS,        \* continuity counter values offered to the model-checked instance (a subset of 0..CCMOD-1)
          MaxSteps

Last(s) == s[Len(s)]
Q(f, k) == IF k \in DOMAIN f THEN f[k] ELSE <<>>
SetQ(f, k, v) == [x \in DOMAIN f \cup {k} |-> IF x = k THEN v ELSE f[x]]

\* ---- data.go:isPSIComplete ------------------------------------------------
\* table ids at which the section walk stops: stuffing and ids the library does not know (data_psi.go:isUnknown)
KnownTID(t) == t \in {0, 2, 64, 65, 66, 70, 74, 112, 113, 114, 115, 126, 127} \/ (t >= 78 /\ t <= 111)
StopTID(t) == t = 255 \/ ~KnownTID(t)
\* the iterator's offset after the walk over b starting at offset o (0-based: o bytes consumed), -1 = "a read failed"
RECURSIVE Walk(_, _)
Walk(b, o) ==
  IF o >= Len(b) THEN o                                   \* HasBytesLeft() is false
  ELSE IF StopTID(b[o + 1]) THEN o + 1                    \* table id consumed, break
  ELSE IF o + 3 > Len(b) THEN -1                          \* the two section_length bytes are not there yet
  ELSE Walk(b, o + 3 + ((b[o + 2] % 16) * 256 + b[o + 3]))
PSIComplete(b) == Len(b) >= 1 /\ LET o == Walk(b, 1 + b[1]) IN o >= 0 /\ Len(b) >= o

RECURSIVE Bytes(_)
Bytes(ps) == IF ps = <<>> THEN <<>> ELSE ps[1].pl \o Bytes(Tail(ps))

\* ---- packet_pool.go: add ---------------------------------------------------
\* a duplicate repeats counter, unit start flag and payload of the packet before it (only its PCR may differ); the same counter with another
\* payload is what follows a loss of exactly CCMOD - 1 packets
Dup(mps, p) == Len(mps) > 0 /\ p.hp /\ p.cc = Last(mps).cc /\ p.pusi = Last(mps).pusi /\ p.pl = Last(mps).pl
Disc(mps, p) == p.disc \/ (Len(mps) > 0 /\ ((p.hp /\ p.cc # (Last(mps).cc + 1) % CCMOD) \/ (~p.hp /\ p.cc # Last(mps).cc)))

\* the result of adding p with queues q and PMT PIDs pmap:
\*   dec  the decisions taken, in the order of the code (what the accumulator hook reports)
\*   out  the packets returned to NextData (<<>> = nothing)
\*   q    the queues afterwards
\*   lost the queue dropped without being returned (when a payload unit start both flushes the queue and completes a
\*        section on its own, the second assignment of the result overwrites the first): named, not hidden
AddStep(q, pmap, p) ==
  IF p.tei \/ ~p.hp THEN [dec |-> <<>>, out |-> <<>>, q |-> q, lost |-> <<>>]
  ELSE LET mps == Q(q, p.pid) IN
    IF Dup(mps, p) THEN [dec |-> <<"duplicate">>, out |-> <<>>, q |-> q, lost |-> <<>>]
    \* a packet that starts a payload unit right after the previous packet of its PID ends the previous unit like any other, even when it
    \* announces a discontinuity (discontinuity_indicator): nothing of the previous unit is missing
    ELSE LET disc == Disc(mps, p) /\ ~(p.pusi /\ Len(mps) > 0 /\ p.cc = (Last(mps).cc + 1) % CCMOD)
             m1 == IF disc THEN <<>> ELSE mps
             ps1 == IF p.pusi THEN m1 ELSE <<>>
             m2 == Append(IF p.pusi THEN <<>> ELSE m1, p)
             early == (p.pid = 0 \/ p.pid \in pmap) /\ PSIComplete(Bytes(m2))
         IN [dec |-> (IF disc THEN <<"discontinuity">> ELSE <<>>) \o (IF p.pusi THEN <<"flush-pusi">> ELSE <<>>)
                     \o (IF early THEN <<"flush-psi-complete">> ELSE <<>>),
             out |-> IF early THEN m2 ELSE ps1,
             q |-> SetQ(q, p.pid, IF early THEN <<>> ELSE m2),
             lost |-> IF early THEN ps1 ELSE <<>>]

\* demuxer.go:NextData - what is done with a returned group: parsed (handed to the PacketsParser first) or ignored
Parsed(g) == Len(g) > 0 /\ g[1].pusi

\* packet_pool.go:dumpUnlocked - the lowest PID whose queue is not empty is returned and removed; empty queues met on the way
\* are removed too.  DumpNext gives [pid, out, q] or pid = -1 when every queue is empty
DumpNext(q) ==
  LET ne == {k \in DOMAIN q : q[k] # <<>>} IN
  IF ne = {} THEN [pid |-> -1, out |-> <<>>, q |-> [k \in {} |-> <<>>]]
  ELSE LET k == CHOOSE x \in ne : \A y \in ne : x <= y
       IN [pid |-> k, out |-> q[k], q |-> [x \in {y \in DOMAIN q : y > k} |-> q[x]]]

\* ---- the model-checked system ------------------------------------------------
VARIABLES q, pmap, out, lost, steps, ended,
          hist        \* the packets so far (history only: hidden by View; exported as a behaviour to replay into the real Demuxer)
vars == <<q, pmap, out, lost, steps, ended, hist>>

\* packets with payload: every combination; packets flagged transport_error or without payload: one payload each (they are dropped at the door)
PsiPids == {0} \cup UNION PATPIDS              \* the PIDs whose payload bytes can ever matter
OnePayload == {CHOOSE x \in PAYLOADS : TRUE}
Packet == [pid : PIDS \cap PsiPids, cc : CCS, pusi : BOOLEAN, hp : {TRUE}, tei : {FALSE}, disc : BOOLEAN, pl : PAYLOADS]
          \cup [pid : PIDS \ PsiPids, cc : CCS, pusi : BOOLEAN, hp : {TRUE}, tei : {FALSE}, disc : BOOLEAN, pl : OnePayload]
          \cup [pid : PIDS, cc : CCS, pusi : {FALSE}, hp : BOOLEAN, tei : BOOLEAN, disc : BOOLEAN, pl : OnePayload]

Init == q = [k \in {} |-> <<>>] /\ pmap = {} /\ out = <<>> /\ lost = <<>> /\ steps = 0 /\ ended = FALSE /\ hist = <<>>

Add(p) == /\ ~ended /\ steps < MaxSteps
          /\ LET r == AddStep(q, pmap, p) IN q' = r.q /\ out' = r.out /\ lost' = r.lost
          /\ steps' = steps + 1 /\ hist' = Append(hist, p)
          /\ UNCHANGED <<pmap, ended>>
\* a PAT was delivered from the group just returned on PID 0
Learn(S) == /\ ~ended /\ Parsed(out) /\ out[1].pid = 0
            /\ pmap' = pmap \cup S /\ out' = <<>>
            /\ UNCHANGED <<q, lost, steps, ended, hist>>
Dump == /\ LET d == DumpNext(q) IN d.pid >= 0 /\ q' = d.q /\ out' = d.out
        /\ ended' = TRUE /\ lost' = <<>>
        /\ UNCHANGED <<pmap, steps, hist>>
Next == (\E p \in Packet : Add(p)) \/ (\E S \in PATPIDS : Learn(S)) \/ Dump
Spec == Init /\ [][Next]_vars

View == <<q, pmap, out, lost, steps, ended>>
\* one behaviour per explored Add transition: the packet sequence leading to it (replayed into the real Demuxer, harness/acc.go)
ExportEdge == (hist' # hist) => PrintT("SCN " \o ToJson([pkts |-> hist']))

\* ---- what parseData relies on ---------------------------------------------
\* a run of packets with payload and without transport error, gap-free in the continuity counter, where only the first packet may
\* start a payload unit
Run(ps) == /\ \A i \in 1..Len(ps) : ps[i].hp /\ ~ps[i].tei /\ ps[i].pid = ps[1].pid
           /\ \A i \in 1..(Len(ps) - 1) : ps[i + 1].cc = (ps[i].cc + 1) % CCMOD /\ ~ps[i + 1].pusi
QueuesAreRuns == \A k \in DOMAIN q : Run(q[k]) /\ (q[k] # <<>> => q[k][1].pid = k)
OutIsRun == Run(out)
\* a queue on a PID known to carry PSI never keeps a complete unit: it was returned by the Add that completed it
\* (only for units that started after the PID became known: pmap may grow under a queue)
LostIsHeadlessOrIncomplete ==
  lost # <<>> => (~lost[1].pusi \/ ~PSIComplete(Bytes(lost)) \/ lost[1].pid # 0)
=============================================================================
