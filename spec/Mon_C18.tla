------------------------------ MODULE Mon_C18 ------------------------------
(* C18 - failures of the underlying reader or writer are always surfaced.
   Writer half (harness/mux.go with a fault-injecting io.Writer):
     reset  t, fmode (once|perm), fat (index of the failing Write call)
     call   op, err, n, delta (bytes the writer accepted during the call), wfail
            (the injected failure fired during this call)
   Rule: a call during which the writer failed returns an error that wraps the
   injected cause (err = "cause") and a count n <= delta.
   Reader half (harness/demux.go with a fault-injecting io.Reader):
     reset  t, kind = "rfault"
     clean  dg                      the fault-free run's results, in order
     rstart off partial seek        a new run with the reader failing at byte offset off
     rcall  api, res (ok|nomore|cause|other|panic), rfail (the injected failure
            fired during this call), dg
   Rule: the call during which the reader failed returns an error wrapping the
   cause (never ErrNoMorePackets, never a panic); every delivery before it is
   the next element of the fault-free output (prefix). *)
EXTENDS MonBase
VARIABLES l, st
vars == <<l, st>>
St0(t, mode, i) == [tr |-> t, mode |-> mode, at |-> i, next |-> 0, failed |-> FALSE, clean |-> <<>>, auto |-> FALSE]
Init == l = 1 /\ st = St0("none", "none", 0)
V(kind, s, more) == [prop |-> "C18", kind |-> kind, trace |-> s.tr, at |-> s.at, mode |-> s.mode, auto |-> s.auto] @@ more

OnCall(s, e, i) ==
  LET s0 == [s EXCEPT !.at = i] IN
  IF ~e.wfail THEN s0
  ELSE LET s1 == RepIf(e.err = "nil", s0, V("writer-error-swallowed", s0, [op |-> e.op, n |-> e.n, delta |-> e.delta, wcalls |-> e.wcalls]))
           s2 == RepIf(e.err \notin {"nil", "cause"}, s1, V("writer-error-not-wrapped", s0, [op |-> e.op, err |-> e.err]))
       IN RepIf(e.n > e.delta, s2, V("count-exceeds-accepted", s0, [op |-> e.op, n |-> e.n, delta |-> e.delta]))

OnRCall(s, e, i) ==
  LET s0 == [s EXCEPT !.at = i] IN
  IF e.rfail THEN
       LET s1 == [s0 EXCEPT !.failed = TRUE] IN
       RepIf(e.res # "cause", s1, V("reader-error-not-surfaced", s0, [api |-> e.api, res |-> e.res, off |-> e.off]))
  ELSE IF s.failed THEN s0                                  \* after the failing call nothing is required
  ELSE IF e.res = "ok" THEN
       LET s1 == [s0 EXCEPT !.next = s.next + 1] IN
       RepIf(s.next + 1 > Len(s.clean) \/ (s.next + 1 <= Len(s.clean) /\ s.clean[s.next + 1] # e.dg), s1,
             V("not-a-prefix", s0, [api |-> e.api, pos |-> s.next + 1, off |-> e.off]))
  ELSE RepIf(e.res = "panic", s0, V("panic", s0, [api |-> e.api]))

Step(s, e, i) ==
  CASE e.ev = "reset" -> [St0(e.t, Get(e, "fmode", "reader"), i) EXCEPT !.auto = Get(e, "auto", FALSE)]
    [] e.ev = "clean" -> [s EXCEPT !.clean = Append(s.clean, e.dg)]
    [] e.ev = "rstart" -> [s EXCEPT !.next = 0, !.failed = FALSE, !.at = i]
    [] e.ev = "call" -> OnCall(s, e, i)
    [] e.ev = "rcall" -> OnRCall(s, e, i)
    [] OTHER -> s

Next == /\ l <= Len(Trace)
        /\ l' = l + 1
        /\ st' = Step(st, Trace[l], l)
        /\ (l = Len(Trace)) => PrintT("DONE " \o ToString(l))
Spec == Init /\ [][Next]_vars
=============================================================================
