------------------------------ MODULE MC_Demux ------------------------------
(* Model-checking / scenario-generation instances of Demux.tla (constants that a cfg file cannot express). *)
EXTENDS Demux

PES(total, hl, b) == [t |-> "pes", total |-> total, hl |-> hl, bounded |-> b]
Sec(tid, slen) == [tid |-> tid, slen |-> slen, crcok |-> TRUE]
PSI(ptr, secs, trail) == [t |-> "psi", ptr |-> ptr, secs |-> secs, trail |-> trail]

\* two PIDs: PAT + one ES (C02 every split of small units; C06 every dup/drop)
Roles2 == (0 :> "pat") @@ (256 :> "es")
\* four PIDs: PAT, PMT, SDT, ES
Roles4 == (0 :> "pat") @@ (4096 :> "pmt") @@ (17 :> "si") @@ (256 :> "es")

TmplSmall == [r \in {"pat", "pmt", "si", "es"} |->
  CASE r = "pat" -> { PSI(0, <<Sec(0, 13)>>, 2), PSI(1, <<Sec(0, 13), Sec(0, 13)>>, 0) }
    [] r = "pmt" -> { PSI(0, <<Sec(2, 18)>>, 0), PSI(0, <<Sec(2, 15), Sec(2, 13)>>, 3) }
    [] r = "si"  -> { PSI(0, <<Sec(66, 17)>>, 1), PSI(2, <<Sec(66, 12), Sec(70, 17)>>, 0) }
    [] r = "es"  -> { PES(20, 14, TRUE), PES(23, 9, FALSE) } ]

\* units spanning several full packets (boundary classes 183/184/185)
TmplBig == [r \in {"pat", "pmt", "si", "es"} |->
  CASE r = "pat" -> { PSI(0, <<Sec(0, 13)>>, 171) }
    [] r = "pmt" -> { PSI(0, <<Sec(2, 200)>>, 0), PSI(0, <<Sec(2, 180), Sec(2, 181)>>, 0) }
    [] r = "si"  -> { PSI(0, <<Sec(66, 181)>>, 0), PSI(0, <<Sec(66, 180)>>, 0) }
    [] r = "es"  -> { PES(184, 14, TRUE), PES(185, 14, FALSE), PES(368, 19, TRUE) } ]

RolesPES == (0 :> "pat") @@ (256 :> "es") @@ (257 :> "es")
RolesPSI == (0 :> "pat") @@ (4096 :> "pmt") @@ (17 :> "si")
ChunksSmall == {1, 3, 12}
ChunksBig == {1, 2, 183, 184}
=============================================================================
