------------------------------ MODULE Mon_C03 ------------------------------
(* C03 - demuxing any finite input terminates without panicking.  Trace
   (harness/robust.go): one `case` event per (input, configuration):
     case input len psize reader api res cons
       res[k]  result of the k-th call: 0 ok, 1 error, 2 ErrNoMorePackets, 3 panic
       cons[k] bytes pulled from the io.Reader after the k-th call
   The harness keeps calling until two calls after the first ErrNoMorePackets, or
   until len + 5 calls.  `hang`: a single call did not return (watchdog).
   Rules: no panic; bytes pulled never decrease and never exceed the input;
   ErrNoMorePackets is reached after at most len + 2 other calls and is
   absorbing.  (Spinning without consuming input shows as a missing
   ErrNoMorePackets or as a hang.) *)
EXTENDS MonBase
VARIABLES l, st
vars == <<l, st>>
Init == l = 1 /\ st = [tr |-> "none", at |-> 0]
InputClass(n) == IF n = "wellformed" \/ n = "empty" THEN n ELSE "malformed"
V(kind, s, e, more) == [prop |-> "C03", kind |-> kind, trace |-> s.tr, at |-> s.at, auto |-> (e.psize = -1), reader |-> e.reader, api |-> e.api,
                        inclass |-> InputClass(e.input)] @@ more

OnCase(s, e, i) ==
  LET s0 == [s EXCEPT !.at = i]
      n == Len(e.res)
      eofs == {k \in 1..n : e.res[k] = 2}
      first == IF eofs = {} THEN 0 ELSE CHOOSE k \in eofs : \A j \in eofs : k <= j
      s1 == RepIf(\E k \in 1..n : e.res[k] = 3, s0, V("panic", s0, e, [input |-> e.input, len |-> e.len]))
      s2 == RepIf((\E k \in 1..(n-1) : e.cons[k+1] < e.cons[k]) \/ (\E k \in 1..n : e.cons[k] > e.len), s1,
                  V("bytes-pulled-inconsistent", s0, e, [input |-> e.input, len |-> e.len]))
      s3 == RepIf(first = 0 \/ first - 1 > e.len + 2, s2, V("end-of-stream-not-reached", s0, e, [input |-> e.input, len |-> e.len, calls |-> n]))
  IN RepIf(first # 0 /\ \E k \in first..n : e.res[k] # 2, s3, V("end-of-stream-not-absorbing", s0, e, [input |-> e.input, len |-> e.len]))

Step(s, e, i) ==
  CASE e.ev = "reset" -> [tr |-> e.t, at |-> i]
    [] e.ev = "case" -> OnCase(s, e, i)
    [] e.ev = "hang" -> Rep(s, [prop |-> "C03", kind |-> "call-did-not-return", trace |-> s.tr, at |-> i])
    [] OTHER -> s

Next == /\ l <= Len(Trace)
        /\ l' = l + 1
        /\ st' = Step(st, Trace[l], l)
        /\ (l = Len(Trace)) => PrintT("DONE " \o ToString(l))
Spec == Init /\ [][Next]_vars
=============================================================================
