INIT Init
NEXT Next
INVARIANTS DecodeAgrees EncodeAgrees LastDay
CHECK_DEADLOCK FALSE
