INIT Init
NEXT Next
INVARIANT DecodesBack
CHECK_DEADLOCK FALSE
