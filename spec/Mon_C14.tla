------------------------------ MODULE Mon_C14 ------------------------------
(* C14 - descriptors decode/encode per spec; declared lengths always match
   emitted bytes.  Trace (harness/codec_desc.go, through the verif-tagged
   wrappers of parseDescriptors / writeDescriptorsWithLength):
     dvec class ds wb wn werr calc got gerr goff
          ds: descriptor values (with the struct's redundant Length set correctly, to 0 or wrongly);
          wb/wn/werr: bytes, count, error of the real writer; calc: calcDescriptorsLength(ds);
          got/gerr/goff: values, error, final offset of the real parser on wb
     dmal class first sent got gerr goff blen
          a loop [first, middle, sentinel, sentinel] whose middle descriptor declares a length shorter/longer than its
          tag implies
   Rules: wb = LoopWithLength(ds) (Descriptors.tla), wn = Len(wb), calc = Len(wb) - 2 whatever Length holds;
   parser on those bytes = ds (a body of length 0 parses to a descriptor without body) and stops at the loop's end;
   after a malformed middle descriptor: an error, or first and sentinels intact and offset at the loop's end. *)
EXTENDS MonBase, Descriptors
VARIABLES l, st
vars == <<l, st>>
Init == l = 1 /\ st = [tr |-> "none", at |-> 0]
V(kind, s, e, more) == [prop |-> "C14", kind |-> kind, trace |-> s.tr, at |-> s.at, class |-> e.class] @@ more

\* do the declared lengths in b (a loop with its 12-bit length) match the bytes present?
RECURSIVE WalkOK(_, _)
WalkOK(b, p) == IF p = Len(b) + 1 THEN TRUE ELSE IF p + 1 > Len(b) THEN FALSE ELSE WalkOK(b, p + 2 + b[p + 1])
Framed(b) == Len(b) >= 2 /\ (b[1] % 16) * 256 + b[2] = Len(b) - 2 /\ WalkOK(b, 3)
Same(g, v) == IF g.k = "empty" THEN g.tag = v.tag /\ Body(v) = <<>> ELSE NoLen(g) = NoLen(v)
SameAll(gs, vs) == Len(gs) = Len(vs) /\ \A i \in DOMAIN gs : Same(gs[i], vs[i])
FirstDiff(a, b) == IF Len(a) # Len(b) THEN -Len(a) ELSE IF a = b THEN 0 ELSE CHOOSE k \in 1..Len(a) : a[k] # b[k] /\ \A j \in 1..(k-1) : a[j] = b[j]

OnVec(s, e) ==
  LET want == LoopWithLength(e.ds)
      wok == e.werr = "nil" /\ e.wb = want /\ e.wn = Len(want)
      s1 == RepIf(~wok, s, V("write-differs-from-reference-encoding", s, e,
                   [werr |-> e.werr, declared_lengths_match_bytes |-> Framed(e.wb), wn |-> e.wn, wantn |-> Len(want), firstdiff |-> FirstDiff(e.wb, want),
                    zero_length_field |-> \E i \in DOMAIN e.ds : e.ds[i].len = 0]))
      s2 == RepIf(e.calc # Len(want) - 2, s1, V("length-calculator-differs", s, e, [calc |-> e.calc, want |-> Len(want) - 2]))
      full == "wonly" \notin DOMAIN e       \* (write direction only for values a parser does not yield back unchanged)
      s3 == RepIf(full /\ wok /\ (e.gerr # "nil" \/ ~SameAll(e.got, e.ds)), s2, V("parse-differs-from-value", s, e, [gerr |-> e.gerr]))
      \* got2: the same bytes parsed again after every byte slice of the first result was overwritten by its owner
      s4 == RepIf(full /\ wok /\ e.gerr = "nil" /\ "got2" \in DOMAIN e /\ ~SameAll(e.got2, e.ds), s3, V("parse-depends-on-earlier-results", s, e, [n |-> Len(e.got2)]))
  IN RepIf(full /\ wok /\ e.gerr = "nil" /\ (e.goff # Len(want) \/ \E i \in DOMAIN e.got : i \in DOMAIN e.got /\ i \in DOMAIN e.ds /\ e.got[i].len # Len(Body(e.ds[i]))), s4,
           V("parsed-length-or-offset", s, e, [goff |-> e.goff, want |-> Len(want)]))

OnMal(s, e) ==
  LET n == Len(e.got)
      intact == n >= 3 /\ Same(e.got[1], e.first) /\ Same(e.got[n-1], e.sent[1]) /\ Same(e.got[n], e.sent[2]) /\ e.goff = e.blen
  IN IF e.gerr = "panic" THEN Rep(s, V("panic", s, e, [mid |-> e.mid]))
     ELSE RepIf(e.gerr = "nil" /\ ~intact, s, V("malformed-descriptor-shifts-followers", s, e, [mid |-> e.mid, n |-> n, goff |-> e.goff, blen |-> e.blen]))

Step(s, e, i) ==
  LET s0 == [s EXCEPT !.at = i] IN
  CASE e.ev = "reset" -> [tr |-> e.t, at |-> i]
    [] e.ev = "dvec" -> OnVec(s0, e)
    [] e.ev = "dmal" -> OnMal(s0, e)
    \* a descriptor announcing more bytes than its loop has left: refused, or the parse ends where the loop length says (nothing after the loop moves)
    [] e.ev = "dover" -> IF e.gerr = "panic" THEN Rep(s0, V("panic", s0, e, [mid |-> e.mid]))
                         ELSE RepIf(e.gerr = "nil" /\ e.goff # e.loopend, s0, V("descriptor-runs-past-its-loop", s0, e, [mid |-> e.mid, goff |-> e.goff, loopend |-> e.loopend]))
    [] OTHER -> s

Next == /\ l <= Len(Trace)
        /\ l' = l + 1
        /\ st' = Step(st, Trace[l], l)
        /\ (l = Len(Trace)) => PrintT("DONE " \o ToString(l))
Spec == Init /\ [][Next]_vars
=============================================================================
