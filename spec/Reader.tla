------------------------------- MODULE Reader -------------------------------
(* Model of the reading side of the Demuxer (demuxer.go:NextPacket,
   packet_buffer.go:newPacketBuffer / autoDetectPacketSize / peek / rewind /
   next) against an io.Reader that may return short reads.

   The input is NPK frames of S bytes (S in 188..192 for auto-detection) plus
   EXTRA trailing bytes (a truncated last packet).  Reader kinds: "seek"
   (io.Seeker), "bufio" (a bufio.Reader, Peek), "plain" (neither).  A Read of n
   bytes returns any k in 1..n the schedule likes (Short = TRUE) or exactly n.

   Deviations:
     "PeekSingleRead"    peek and the resync after detection use one Read call instead of io.ReadFull
     "DetectErrNeverEOF" a failed detection leaves a packet buffer of size 0 behind; no call ever
                         returns ErrNoMorePackets
   With Dev = {} : SameAsFull (C08) and EndsInBoundedCalls / EOFAbsorbing (C03). *)
EXTENDS Integers, Sequences, TLC
CONSTANTS NPK, EXTRA, Sizes, Kinds, Short, Auto, Dev
VARIABLES S, kind, pos, pb, out, calls, done, got      \* got: bytes the peek obtained (ghost of the detection step)
vars == <<S, kind, pos, pb, out, calls, done, got>>
HasDev(d) == d \in Dev
EOFv == -2   \* ErrNoMorePackets
ERRv == -3   \* any other error
Total == NPK * S + EXTRA
Init == /\ S \in Sizes /\ kind \in Kinds /\ pos = 0 /\ pb = "nil" /\ out = <<>> /\ calls = 0 /\ done = FALSE /\ got = 0

\* how many bytes a request of n bytes at offset p can obtain in ONE Read call
OneRead(p, n) == LET avail == Total - p IN
                 IF avail <= 0 THEN {0} ELSE IF Short THEN 1..(IF n < avail THEN n ELSE avail) ELSE {IF n < avail THEN n ELSE avail}
\* ... and with io.ReadFull / bufio.Peek (loops until n or end of input)
FullRead(p, n) == LET avail == Total - p IN IF avail <= 0 THEN 0 ELSE IF n < avail THEN n ELSE avail

Ret(r) == /\ out' = Append(out, r) /\ calls' = calls + 1

\* NextPacket with no packet buffer yet and auto-detection requested
Detect ==
  /\ ~done /\ pb = "nil" /\ Auto
  /\ \E g \in (IF kind = "bufio" \/ ~HasDev("PeekSingleRead") THEN {FullRead(pos, 193)} ELSE OneRead(pos, 193)) :
       /\ got' = g
       /\ IF g >= S + 1                                    \* both sync bytes seen: size detected
          THEN \E sync \in (IF kind # "plain" THEN {0}
                            ELSE IF HasDev("PeekSingleRead") THEN OneRead(pos + g, 2 * S - 193) ELSE {FullRead(pos + g, 2 * S - 193)}) :
                 /\ pb' = "ok"
                 /\ pos' = IF kind = "seek" THEN 0 ELSE IF kind = "bufio" THEN pos ELSE pos + g + sync
                 /\ UNCHANGED <<out, calls, done>>         \* (the same NextPacket call goes on to read a packet: ReadPacket)
          ELSE \* detection failed
               IF g < 193 /\ ~HasDev("DetectErrNeverEOF") /\ (kind = "bufio" \/ ~HasDev("PeekSingleRead") \/ pos + g = Total)
               THEN /\ Ret(EOFv) /\ done' = TRUE /\ pos' = (IF kind = "bufio" THEN pos ELSE pos + g) /\ UNCHANGED pb    \* input ended inside the first packets
               ELSE /\ Ret(ERRv)
                    /\ pb' = IF HasDev("DetectErrNeverEOF") THEN "zero" ELSE "nil"
                    /\ pos' = (IF kind = "bufio" THEN pos ELSE pos + g) /\ UNCHANGED done
  /\ UNCHANGED <<S, kind>>

Explicit == /\ ~done /\ pb = "nil" /\ ~Auto /\ pb' = "ok" /\ UNCHANGED <<S, kind, pos, out, calls, done, got>>

\* packetBuffer.next: io.ReadFull of one frame
ReadPacket ==
  /\ ~done /\ pb = "ok"
  /\ LET g == FullRead(pos, S) IN
     IF g < S THEN /\ Ret(EOFv) /\ done' = TRUE /\ pos' = pos + g
     ELSE /\ Ret(IF pos % S = 0 THEN pos \div S ELSE -1)   \* -1: a misaligned frame (garbage / sync error)
          /\ pos' = pos + S /\ UNCHANGED done
  /\ UNCHANGED <<S, kind, pb, got>>

\* the size-0 packet buffer left behind by a failed detection: every call fails, none ends
ZeroBuffer == /\ ~done /\ pb = "zero" /\ calls < NPK + 6 /\ Ret(ERRv) /\ UNCHANGED <<S, kind, pos, pb, done, got>>
AfterEOF == /\ done /\ calls < NPK + 6 /\ Ret(EOFv) /\ UNCHANGED <<S, kind, pos, pb, done, got>>
Retry == FALSE
Next == Detect \/ Explicit \/ ReadPacket \/ ZeroBuffer \/ AfterEOF
Spec == Init /\ [][Next]_vars

Packets == SelectSeq(out, LAMBDA x : x \notin {EOFv, ERRv})
\* C08: whatever the schedule, explicit size or auto-detection on a seekable / bufio reader returns every packet, in order;
\* auto-detection on a plain reader returns the packets from the third on (documented loss), the same for every schedule
SameAsFull == done => (IF Auto /\ NPK >= 2 /\ kind = "plain" THEN Packets = [i \in 1..(NPK - 2) |-> i + 1]
                        ELSE IF Auto /\ NPK < 2 THEN TRUE
                        ELSE Packets = [i \in 1..NPK |-> i - 1])
\* C03: the end of the input is reached within NPK + 2 calls and is absorbing
EndsInBoundedCalls == calls > NPK + 2 => done
EOFAbsorbing == \A i \in DOMAIN out : out[i] = EOFv => \A j \in i..Len(out) : out[j] = EOFv
=============================================================================
