------------------------------- MODULE Reader -------------------------------
(* Model of the reading side of the Demuxer at the grain of one public call
   (demuxer.go:NextPacket, packet_buffer.go:newPacketBuffer /
   autoDetectPacketSize / peek / rewind / next) against an io.Reader that may
   return short reads.

   The input is npk frames of S bytes (S in 188..192 for auto-detection) plus
   extra trailing bytes (a truncated last packet).  Reader kinds: "seek"
   (io.Seeker), "bufio" (a bufio.Reader, Peek), "plain" (neither).  A Read of n
   bytes returns any k in 1..n the schedule likes (Short = TRUE) or exactly n.

   Call(c, s) is the set of [r, s] one NextPacket call may produce in state s
   for input / reader configuration c: r = index of the frame returned, EOFv
   (ErrNoMorePackets) or ERRv (any other error).  It is shared with the trace
   specification Mon_Reader.tla, which validates every call recorded from the
   real Demuxer (harness family `rmodel`).

   Deviations:
     "PeekSingleRead"    peek and the resync after detection use one Read call instead of io.ReadFull
     "DetectErrNeverEOF" a failed detection leaves a packet buffer of size 0 behind; no call ever
                         returns ErrNoMorePackets
     "TruncatedFirstPacketIsError"  an input that ends inside its first packet is an error first, the end of the stream
                         only from the next call on (auto-detection)
   With Dev = {} : SameAsFull (C08) and EndsInBoundedCalls / EOFAbsorbing (C03). *)
EXTENDS Integers, Sequences, TLC
CONSTANTS Sizes, Kinds, NPKS, EXTRAS, AUTOS, Short, Dev
VARIABLES c,        \* the configuration [S, kind, npk, extra, auto] (constant along a behaviour)
          s,        \* [pos, pb, done]: reader offset, packet buffer ("nil" | "ok" | "zero"), end reached
          out, calls
vars == <<c, s, out, calls>>
HasDev(d) == d \in Dev
EOFv == -2   \* ErrNoMorePackets
ERRv == -3   \* any other error
CTXv == -5   \* the context's error: the context given to NewDemuxer is done
Total(cf) == cf.npk * cf.S + cf.extra

\* how many bytes a request of n bytes at offset p can obtain in ONE Read call
OneRead(cf, p, n) == LET avail == Total(cf) - p IN
                     IF avail <= 0 THEN {0} ELSE IF Short THEN 1..(IF n < avail THEN n ELSE avail) ELSE {IF n < avail THEN n ELSE avail}
\* ... and with io.ReadFull / bufio.Peek (loops until n or end of input)
FullRead(cf, p, n) == LET avail == Total(cf) - p IN IF avail <= 0 THEN 0 ELSE IF n < avail THEN n ELSE avail

\* packetBuffer.next: io.ReadFull of one frame
ReadPacket(cf, st) ==
  LET g == FullRead(cf, st.pos, cf.S) IN
  IF g < cf.S THEN [r |-> EOFv, s |-> [st EXCEPT !.done = TRUE, !.pos = st.pos + g]]
  ELSE [r |-> (IF st.pos % cf.S = 0 THEN st.pos \div cf.S ELSE ERRv),      \* a misaligned frame does not start with a sync byte
        s |-> [st EXCEPT !.pos = st.pos + cf.S]]

\* NextPacket with no packet buffer yet and auto-detection requested: detection, then (when it succeeded) the first packet in the same call
Detect(cf, st) ==
  LET gs == IF cf.kind = "bufio" \/ ~HasDev("PeekSingleRead") THEN {FullRead(cf, st.pos, 193)} ELSE OneRead(cf, st.pos, 193)
      syncs(g) == IF cf.kind # "plain" THEN {0}
                  ELSE IF HasDev("PeekSingleRead") THEN OneRead(cf, st.pos + g, 2 * cf.S - 193) ELSE {FullRead(cf, st.pos + g, 2 * cf.S - 193)}
      forG(g) ==
        IF g >= cf.S + 1                                                            \* both sync bytes seen: size detected
        THEN { ReadPacket(cf, [st EXCEPT !.pb = "ok",
                                         !.pos = IF cf.kind \in {"seek", "bufio"} THEN st.pos ELSE st.pos + g + sync])   \* a seekable reader is given the window back (relative seek), a bufio.Reader was only peeked at
               : sync \in syncs(g) }
        \* detection failed; what was looked at is consumed whatever the reader kind (a bufio.Reader is advanced by Discard)
        \* nothing left at all, or the input ends inside its first packet (a truncated final packet is the end of the stream, C03);
        \* deviation "TruncatedFirstPacketIsError": that case is reported as "only one sync byte detected" once, the end comes with the next call
        ELSE IF (g = 0 \/ (g < 188 /\ ~HasDev("TruncatedFirstPacketIsError"))) /\ ~HasDev("DetectErrNeverEOF")
        THEN { [r |-> EOFv, s |-> [st EXCEPT !.done = TRUE, !.pos = st.pos + g]] }
        ELSE { [r |-> ERRv, s |-> [st EXCEPT !.pb = (IF HasDev("DetectErrNeverEOF") THEN "zero" ELSE "nil"), !.pos = st.pos + g]] }
                                                                                    \* (one whole packet and no second sync byte: "only one sync byte")
  IN UNION { forG(g) : g \in gs }

\* one NextPacket call
Call(cf, st) ==
  IF st.cancelled THEN { [r |-> CTXv, s |-> st] }                          \* checked first, nothing is read
  ELSE IF st.done THEN { [r |-> EOFv, s |-> st] }                               \* the end is absorbing
  ELSE IF st.pb = "zero" THEN { [r |-> ERRv, s |-> st] }                   \* the size-0 packet buffer left behind: every call fails, none ends
  ELSE IF st.pb = "nil" THEN (IF cf.auto THEN Detect(cf, st) ELSE { ReadPacket(cf, [st EXCEPT !.pb = "ok"]) })
  ELSE { ReadPacket(cf, st) }

S0 == [pos |-> 0, pb |-> "nil", done |-> FALSE, cancelled |-> FALSE]
Cancelled(st) == [st EXCEPT !.cancelled = TRUE]                            \* the caller cancels the context between two calls
Init == /\ c \in [S : Sizes, kind : Kinds, npk : NPKS, extra : EXTRAS, auto : AUTOS]
        /\ s = S0 /\ out = <<>> /\ calls = 0
Next == \/ /\ calls < c.npk + 6
           /\ \E x \in Call(c, s) : s' = x.s /\ out' = Append(out, x.r)
           /\ calls' = calls + 1 /\ UNCHANGED c
        \/ /\ ~s.cancelled /\ s' = Cancelled(s) /\ UNCHANGED <<c, out, calls>>
Spec == Init /\ [][Next]_vars

Packets == SelectSeq(out, LAMBDA x : x \notin {EOFv, ERRv, CTXv})
\* C08: whatever the schedule, explicit size or auto-detection on a seekable / bufio reader returns every packet, in order;
\* auto-detection on a plain reader returns the packets from the third on (documented loss), the same for every schedule
SameAsFull == (s.done /\ ~s.cancelled) => (IF c.auto /\ c.npk >= 2 /\ c.kind = "plain" THEN Packets = [i \in 1..(c.npk - 2) |-> i + 1]
                          ELSE IF c.auto /\ c.npk < 2 THEN TRUE
                          ELSE Packets = [i \in 1..c.npk |-> i - 1])
\* C03: the end of the input is reached within npk + 2 calls and is absorbing
EndsInBoundedCalls == (calls > c.npk + 2 /\ ~s.cancelled) => s.done
\* once the context is done every call reports it and the reader is left alone
CancelStops == [][s.cancelled => s'.pos = s.pos]_vars
EOFAbsorbing == \A i \in DOMAIN out : out[i] = EOFv => \A j \in i..Len(out) : out[j] \in {EOFv, CTXv}
=============================================================================
