----------------------------- MODULE Packetise -----------------------------
(* The packetisation loop of Muxer.WriteData (the arithmetic of Mux.tla's PesPkts / Rest) for UNBOUNDED payload lengths,
   as an inductive invariant discharged by Apalache (apalache-mc check --init=IndInit --inv=IndInv --length=1):
   whatever the payload length len >= 1, PES header size hdr and first-packet adaptation field af (with room for the
   header), every packet the loop builds has adaptation field + payload = 184 bytes, the payload bytes handed out plus the
   bytes remaining always equal len, and every packet after the first strictly decreases the remainder (termination).
   TLC checks the same model exhaustively for small lengths (Mux_*.cfg); this lemma covers all lengths. *)
EXTENDS Integers
VARIABLES
  \* @type: Int;
  len,
  \* @type: Int;
  hdr,
  \* @type: Int;
  af,
  \* @type: Int;
  rem,
  \* @type: Bool;
  first,
  \* @type: Int;
  sum,
  \* @type: Int;
  lastAF,
  \* @type: Int;
  lastN,
  \* @type: Int;
  prevRem
Min(a, b) == IF a < b THEN a ELSE b
Init == /\ len \in 1..100000 /\ hdr \in 6..60 /\ af \in 0..178 /\ af + hdr <= 184
        /\ rem = len /\ first = TRUE /\ sum = 0 /\ lastAF = 0 /\ lastN = 184 /\ prevRem = len + 1
Step == /\ rem > 0 \/ first
        /\ LET avail == IF first THEN 184 - af ELSE 184
               h == IF first THEN hdr ELSE 0
               data == Min(avail - h, rem)
               n == h + data
           IN /\ rem' = rem - data /\ sum' = sum + data
              /\ lastN' = n /\ lastAF' = 184 - n
        /\ prevRem' = rem /\ first' = FALSE /\ UNCHANGED <<len, hdr, af>>
Next == Step
IndInit == /\ len \in 1..1000000000 /\ hdr \in 6..60 /\ af \in 0..178 /\ af + hdr <= 184
           /\ rem \in 0..1000000000 /\ first \in BOOLEAN /\ sum \in 0..1000000000 /\ lastAF \in 0..184 /\ lastN \in 0..184 /\ prevRem \in 0..1000000001
           /\ sum + rem = len /\ lastAF + lastN = 184 /\ (first => rem = len) /\ ((~first) => prevRem >= rem)
IndInv == /\ rem >= 0 /\ sum + rem = len
          /\ lastAF + lastN = 184 /\ lastAF >= 0 /\ lastN >= 0
          /\ ((~first) => prevRem >= rem)
\* every packet after the first one consumes at least one payload byte
Progress == [][(~first /\ rem > 0) => rem' < rem]_<<len, hdr, af, rem, first, sum, lastAF, lastN, prevRem>>
=============================================================================
