SPECIFICATION Spec
CONSTANTS
  Roles <- Roles4
  Templates <- TmplSmall
  Chunks <- ChunksSmall
  MaxPkts = 30
  MaxUnits = 8
  Faults = {}
  MaxFaults = 0
  CC0 = 14
  EarlyPMT = FALSE
  StartLike = FALSE
  Dev = {}
ACTION_CONSTRAINT ExportEdge
VIEW View
CHECK_DEADLOCK FALSE
