------------------------------ MODULE Mon_C19 ------------------------------
(* C19 - PacketSkipper equals deleting packets; PacketsParser sees each unit
   exactly once.  Trace (harness/demux.go:runSkip), one stream, several runs of
   the real Demuxer:
     spkt i pid cc pusi haf rai pi        the stream's packets as built (pi: the predicate's value)
     unit id pid firstpkt npk ...
     run "base"      packet* peof deliver* eof             no option
     run "skipA"     skipcb* packet* peof deliver* eof     skipper pi on the whole stream
     run "skipB"     packet* peof deliver* eof             no option, stream with the pi-packets deleted
     run "skipBR"    packet* peof deliver* eof             filtered stream read once, Rewind, then everything
     run "skipRe"/"skipRa"  packet* peof deliver* eof      skipper: read once, Rewind, some calls, Rewind, then everything (explicit /
                                                           auto-detected size); compared with skipBR (a Demuxer keeps its program map across Rewind)
     run "parserObs" parsecb* deliver* eof parsekept       parser returning skip=false and keeping the slices it was handed
     run "parserRep" parsecb* deliver* eof                 parser returning skip=true and its own data
   Rules: skipcb sequence = spkt sequence (once per packet, in order, header and AF parsed);
   packets and data of skipA = those of skipB; observer parser leaves the output unchanged and is
   handed, per PID, exactly the units (first counter, packet count - for PAT/PMT, which are flushed as soon as
   their last section is complete, the packets up to that point), non-empty, single PID, in
   arrival order; a replacing parser's data are exactly what is delivered. *)
EXTENDS MonBase
VARIABLES l, st
vars == <<l, st>>
St0(t, i) == [tr |-> t, spk |-> <<>>, cb |-> <<>>, P |-> EmptyFn, D |-> EmptyFn, units |-> EmptyFn, groups |-> <<>>, rep |-> <<>>, repret |-> <<>>, nrep |-> 0,
              skip |-> "", at |-> i]
Init == l = 1 /\ st = St0("none", 0)
Q(f, k) == IF k \in DOMAIN f THEN f[k] ELSE <<>>
V(kind, s, more) == [prop |-> "C19", kind |-> kind, trace |-> s.tr, at |-> s.at, skip |-> s.skip] @@ more
Proj(x) == [pid |-> x.pid, cc |-> x.cc, pusi |-> x.pusi, haf |-> x.haf, rai |-> x.rai]

GroupOK(g) == /\ g.n >= 1 /\ Len(g.pids) = g.n
              /\ \A k \in 1..g.n : g.pids[k] = g.pids[1]
              /\ \A k \in 1..(g.n - 1) : g.ccs[k+1] = (g.ccs[k] + 1) % 16
PerPidGroups(gs, pid) == LET m == SelectSeq(gs, LAMBDA g : g.n >= 1 /\ g.pids[1] = pid) IN [k \in DOMAIN m |-> <<m[k].ccs[1], m[k].n>>]

OnEOF(s, e, i) ==
  LET s0 == [s EXCEPT !.at = i] IN
  CASE e.run = "skipA" ->
         LET cbp == [k \in DOMAIN s.cb |-> Proj(s.cb[k])]
             want == [k \in DOMAIN s.spk |-> Proj(s.spk[k])]
             s1 == RepIf(cbp # want, s0, V("skipper-not-consulted-once-per-packet-in-order", s0, [ncb |-> Len(cbp), npkt |-> Len(want)]))
         IN RepIf(\E k \in DOMAIN s.cb : ~s.cb[k].afparsed, s1, V("skipper-called-before-adaptation-field-parsed", s0, [x |-> 0]))
    [] e.run = "skipB" ->
         LET s1 == RepIf(Q(s.P, "skipA") # Q(s.P, "skipB"), s0, V("skipper-packets-differ-from-filtered-stream", s0,
                            [na |-> Len(Q(s.P, "skipA")), nb |-> Len(Q(s.P, "skipB"))]))
         IN RepIf(Q(s.D, "skipA") # Q(s.D, "skipB"), s1, V("skipper-data-differ-from-filtered-stream", s0,
                            [na |-> Len(Q(s.D, "skipA")), nb |-> Len(Q(s.D, "skipB"))]))
    [] e.run \in {"skipRe", "skipRa"} ->        \* skipper on the whole stream, some consumption, Rewind (explicit / auto-detected packet size)
         LET s1 == RepIf(Q(s.P, e.run) # Q(s.P, "skipBR"), s0, V("skipper-packets-differ-from-filtered-stream-after-rewind", s0,
                            [run |-> e.run, na |-> Len(Q(s.P, e.run)), nb |-> Len(Q(s.P, "skipBR"))]))
         IN RepIf(Q(s.D, e.run) # Q(s.D, "skipBR"), s1, V("skipper-data-differ-from-filtered-stream-after-rewind", s0,
                            [run |-> e.run, na |-> Len(Q(s.D, e.run)), nb |-> Len(Q(s.D, "skipBR"))]))
    [] e.run = "parserObs" ->
         LET s1 == RepIf(Q(s.D, "parserObs") # Q(s.D, "base"), s0, V("observer-parser-changes-output", s0,
                            [nobs |-> Len(Q(s.D, "parserObs")), nbase |-> Len(Q(s.D, "base"))]))
             s2 == RepIf(\E k \in DOMAIN s.groups : ~GroupOK(s.groups[k]), s1, V("parser-group-malformed", s0, [x |-> 0]))
             badp == {p \in DOMAIN s.units : PerPidGroups(s.groups, p) # s.units[p]}
         IN RepIf(badp # {}, s2, V("parser-not-handed-each-unit-once", s0, [pids |-> badp]))
    [] e.run = "skipCtx" ->           \* context cancelled from inside the predicate: what was returned is a prefix of the filtered stream's packets
         LET a == Q(s.P, "skipCtx") b == Q(s.P, "skipB") IN
         RepIf(Len(a) > Len(b) \/ a # SubSeq(b, 1, Min2(Len(a), Len(b))), s0, V("skipped-packet-returned-when-context-done", s0, [na |-> Len(a), nb |-> Len(b)]))
    [] e.run = "parserObsDs" ->       \* skip=false together with data of the parser's own: the default output (run base2) is unchanged
         RepIf(Q(s.D, "parserObsDs") # Q(s.D, "base2"), s0, V("parser-data-with-skip-false-changes-output", s0,
                  [nobs |-> Len(Q(s.D, "parserObsDs")), nbase |-> Len(Q(s.D, "base2"))]))
    [] e.run = "parserRep" ->
         \* what is delivered: the data the parser returned (one or two per unit), in order, each with the content it had when it was returned
         RepIf(s.rep # s.repret, s0, V("replacing-parser-output-not-delivered-exactly", s0, [n |-> Len(s.repret), got |-> Len(s.rep)]))
    [] OTHER -> s0

Step(s, e, i) ==
  CASE e.ev = "reset" -> [St0(e.t, i) EXCEPT !.skip = e.skip]
    [] e.ev = "spkt" -> [s EXCEPT !.spk = Append(s.spk, e)]
    [] e.ev = "unit" -> [s EXCEPT !.units = SetFn(s.units, e.pid, Append(Q(s.units, e.pid),
                                    <<s.spk[e.firstpkt].cc, IF \E k \in DOMAIN e.items : e.items[k].k \in {"pat", "pmt"} THEN e.gpk ELSE e.npk>>))]
    [] e.ev = "skipcb" -> [s EXCEPT !.cb = Append(s.cb, e)]
    [] e.ev = "packet" -> [s EXCEPT !.P = SetFn(s.P, e.run, Append(Q(s.P, e.run), e.hdg))]
    [] e.ev = "deliver" ->
         IF e.run = "parserRep" THEN [s EXCEPT !.rep = Append(s.rep, e.dg)]
         ELSE [s EXCEPT !.D = SetFn(s.D, e.run, Append(Q(s.D, e.run), e.dg))]
    [] e.ev = "parsecb" -> IF e.run = "parserObs" THEN [s EXCEPT !.groups = Append(s.groups, e)] ELSE [s EXCEPT !.nrep = s.nrep + 1, !.repret = s.repret \o e.ret]
    [] e.ev = "eof" -> OnEOF(s, e, i)
    [] e.ev = "parsekept" -> RepIf(e.changed # 0, s, V("unit-handed-to-parser-changed-afterwards", s, [groups |-> e.groups, changed |-> e.changed]))
    \* a run of more than 65 536 skipped packets in front of a few kept ones (counted by the harness, not listed): the predicate was
    \* consulted for every packet and the kept packets are those of the filtered stream
    [] e.ev = "longskip" -> RepIf(e.ncb # e.npkts \/ e.nret # e.nfiltered \/ ~e.same, s,
                                   V("long-skipped-run", s, [npkts |-> e.npkts, ncb |-> e.ncb, nret |-> e.nret, nfiltered |-> e.nfiltered]))
    [] e.ev = "hang" -> Rep(s, V("no-end-of-stream", s, [run |-> e.run]))
    [] OTHER -> s

Next == /\ l <= Len(Trace)
        /\ l' = l + 1
        /\ st' = Step(st, Trace[l], l)
        /\ (l = Len(Trace)) => PrintT("DONE " \o ToString(l))
Spec == Init /\ [][Next]_vars
=============================================================================
