SPECIFICATION Spec
CONSTANTS
  NPK = 3
  EXTRA = 0
  Sizes = {188, 204}
  Kinds = {"seek", "bufio", "plain"}
  Short = TRUE
  Auto = FALSE
  Dev = {}
INVARIANTS SameAsFull EndsInBoundedCalls EOFAbsorbing
CHECK_DEADLOCK FALSE
