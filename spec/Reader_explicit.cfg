SPECIFICATION Spec
CONSTANTS
  Sizes = {188, 204}
  Kinds = {"seek", "bufio", "plain"}
  NPKS = {0, 1, 3}
  EXTRAS = {0, 100}
  AUTOS = {FALSE}
  Short = TRUE
  Dev = {}
INVARIANTS SameAsFull EndsInBoundedCalls EOFAbsorbing
PROPERTY CancelStops
CHECK_DEADLOCK FALSE
