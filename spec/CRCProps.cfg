INIT Init
NEXT Next
CONSTANT N = 300
INVARIANTS CheckValue Pieces Residue
CHECK_DEADLOCK FALSE
