------------------------------ MODULE PSIProps ------------------------------
(* Known vectors anchoring the section layouts independently of the library: the PAT and PMT packets of the ISO-conformant
   sample in the repository's own test data (demuxer_test.go TestDemuxerNextDataPATPMT), hand-decoded. *)
EXTENDS PSI, TLC
VARIABLE k
Init == k = 0
Next == UNCHANGED k
PATv == [k |-> "pat", tid |-> 0, ssi |-> TRUE, priv |-> FALSE, ext |-> 1, ver |-> 0, cni |-> TRUE, sn |-> 0, lsn |-> 0,
         progs |-> <<[pn |-> 1, pid |-> 4096]>>]
PMTv == [k |-> "pmt", tid |-> 2, ssi |-> TRUE, priv |-> FALSE, ext |-> 1, ver |-> 0, cni |-> TRUE, sn |-> 0, lsn |-> 0, pcr |-> 256, pinfo |-> <<>>,
         streams |-> <<[st |-> 27, pid |-> 256, descs |-> <<>>], [st |-> 15, pid |-> 257, descs |-> <<>>]>>]
Known ==
  /\ Section(PATv) = <<0, 176, 13, 0, 1, 193, 0, 0, 0, 1, 240, 0, 42, 177, 4, 178>>
  /\ Section(PMTv) = <<2, 176, 23, 0, 1, 193, 0, 0, 225, 0, 240, 0, 27, 225, 0, 240, 0, 15, 225, 1, 240, 0, 47, 68, 185, 155>>
=============================================================================
