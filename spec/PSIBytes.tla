------------------------------ MODULE PSIBytes ------------------------------
(* Field-level decoders for PAT and PMT sections carried in one TS packet
   (ISO/IEC 13818-1 2.4.4.3 / 2.4.4.8), over a 188-byte sequence.  Written from
   the standard's syntax tables; used by the C17/C01 monitors. *)
EXTENDS Integers, Sequences, TSBytes

SecHdr(b, t) ==
  [ tid |-> b[t], ssi |-> b[t+1] \div 128, slen |-> (b[t+1] % 16) * 256 + b[t+2],
    ext |-> b[t+3] * 256 + b[t+4], ver |-> (b[t+5] \div 2) % 32, cni |-> b[t+5] % 2,
    sn |-> b[t+6], lsn |-> b[t+7] ]

RECURSIVE PATLoop(_, _, _)
PATLoop(b, p, e) ==            \* entries from index p up to and including index e
  IF p > e THEN <<>>
  ELSE IF p + 3 > e THEN << [pn |-> -1, pid |-> -1] >>
  ELSE << [pn |-> b[p] * 256 + b[p+1], pid |-> (b[p+2] % 32) * 256 + b[p+3]] >> \o PATLoop(b, p + 4, e)

\* decoded PAT of a packet whose PSIInfo is ok
PATOf(b) ==
  LET i == PSIInfo(b) t == i.start h == SecHdr(b, t)
  IN [ hdr |-> h, progs |-> IF i.slen < 9 THEN << [pn |-> -1, pid |-> -1] >> ELSE PATLoop(b, t + 8, i.end - 4) ]

RECURSIVE PMTLoop(_, _, _)
PMTLoop(b, p, e) ==
  IF p > e THEN <<>>
  ELSE IF p + 4 > e THEN << [pid |-> -1, st |-> -1, desc |-> <<>>] >>
  ELSE LET eil == (b[p+3] % 16) * 256 + b[p+4] IN
       IF p + 4 + eil > e THEN << [pid |-> -1, st |-> -1, desc |-> <<>>] >>
       ELSE << [pid |-> (b[p+1] % 32) * 256 + b[p+2], st |-> b[p], desc |-> SubSeq(b, p + 5, p + 4 + eil)] >>
            \o PMTLoop(b, p + 5 + eil, e)

PMTOf(b) ==
  LET i == PSIInfo(b) t == i.start h == SecHdr(b, t)
      pil == (b[t+10] % 16) * 256 + b[t+11]
  IN IF i.slen < 13 \/ t + 12 + pil > i.end - 3
     THEN [ hdr |-> h, pcr |-> -1, pinfo |-> <<>>, streams |-> << [pid |-> -1, st |-> -1, desc |-> <<>>] >> ]
     ELSE [ hdr |-> h, pcr |-> (b[t+8] % 32) * 256 + b[t+9],
            pinfo |-> SubSeq(b, t + 12, t + 11 + pil),
            streams |-> PMTLoop(b, t + 12 + pil, i.end - 4) ]
=============================================================================
