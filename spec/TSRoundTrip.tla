---------------------------- MODULE TSRoundTrip ----------------------------
(* Sanity of the reference layout itself: the independent structural decoder
   (TSBytes.tla) recovers the header fields and lengths of what TSEncode.tla
   encodes, over an enumerated value space (all flag triples x counters x
   adaptation-field shapes). *)
EXTENDS TSEncode, TSBytes, TLC
VARIABLE p
AFs == { [one |-> TRUE, disc |-> FALSE, rai |-> FALSE, espi |-> FALSE, pcr |-> <<>>, opcr |-> <<>>, splice |-> <<>>, priv |-> <<>>, ext |-> <<>>, stuff |-> 0] }
       \cup { [one |-> FALSE, disc |-> d, rai |-> r, espi |-> FALSE, pcr |-> pc, opcr |-> <<>>, splice |-> sp, priv |-> pv,
               ext |-> ex, stuff |-> st] :
              d \in BOOLEAN, r \in BOOLEAN, pc \in {<<>>, <<<<65536, 1>>, 257>>}, sp \in {<<>>, <<200>>}, pv \in {<<>>, <<<<1, 2, 3>>>>},
              ex \in {<<>>, <<[ltw |-> <<TRUE, 5>>, pw |-> <<>>, ss |-> <<3, <<1, 32768>>>>]>>}, st \in {0, 1, 7} }
Vals == { [tei |-> t, pusi |-> u, prio |-> FALSE, pid |-> pid, scr |-> 2, haf |-> TRUE, hpl |-> TRUE, cc |-> cc, af |-> <<a>>, pl |-> <<9, 8, 7>>] :
            t \in BOOLEAN, u \in BOOLEAN, pid \in {0, 4096, 8191}, cc \in {0, 9, 15}, a \in AFs }
Init == p \in Vals
Next == UNCHANGED p
DecodesBack ==
  LET b == Encode(p) h == Hdr(b) IN
  /\ Len(b) = 188 /\ h.sync = 71 /\ h.pid = p.pid /\ h.cc = p.cc /\ h.afc = 3 /\ h.scr = 2
  /\ (h.tei = 1) = p.tei /\ (h.pusi = 1) = p.pusi
  /\ AFOK(b)
  /\ SubSeq(b, PayloadStart(b), PayloadStart(b) + 2) = <<9, 8, 7>>
  /\ RAI(b) = (~p.af[1].one /\ p.af[1].rai)
=============================================================================
