------------------------------ MODULE Mon_Acc ------------------------------
(* Trace specification binding spec/PacketPool.tla to the real Demuxer (harness/acc.go).  Events, written where the code is:
     pkt   i pid cc pusi hp tei disc pl n   the PacketSkipper is consulted for packet i (before the pool sees it); fields from the raw
                                            bytes; pl = payload bytes for the PIDs that may carry PSI (else <<>>, n = its length)
     acc   pid cc d                         a decision of packetAccumulator.add (hook): duplicate | discontinuity | flush-pusi |
                                            flush-psi-complete
     group pid ccs n pusi                   the PacketsParser is handed a group (NextData parses what the pool returned)
     pat   pid progs                        a PAT was delivered on pid (updateData learns its PMT PIDs when pid = 0)
     eof                                    ErrNoMorePackets (after the end-of-stream dump)
   Each `pkt` takes PacketPool!AddStep; the decisions it predicts must be exactly the `acc` events that follow, the group it
   predicts (when NextData would parse it) exactly the next `group` event; at the end of the stream the groups are
   PacketPool!DumpNext in ascending PID order.  The PMT PIDs are learnt from the logged `pat` events (the PAT decoder itself is
   C13's), everything else is computed by the specification - including isPSIComplete, byte for byte. *)
EXTENDS MonBase
\* the monitor uses PacketPool's operators (AddStep, DumpNext, Parsed), not its variables
PP == INSTANCE PacketPool WITH PIDS <- {}, CCMOD <- 16, PAYLOADS <- {}, PATPIDS <- {}, CCS <- {}, MaxSteps <- 0,
                               q <- 0, pmap <- 0, out <- 0, lost <- 0, steps <- 0, ended <- 0, hist <- 0
VARIABLES l, st
mvars == <<l, st>>

St0(t, i) == [tr |-> t, at |-> i, q |-> EmptyFn, pmap |-> {}, pend |-> <<>>, pout |-> <<>>, dumping |-> FALSE, cur |-> [pid |-> -1, cc |-> -1],
              n |-> 0]
V(kind, s, more) == [prop |-> "ACC", kind |-> kind, trace |-> s.tr, at |-> s.at] @@ more

GroupOf(ps) == [pid |-> ps[1].pid, ccs |-> [k \in DOMAIN ps |-> ps[k].cc], n |-> Len(ps)]
Leftover(s) == s.pend # <<>> \/ s.pout # <<>>
ClearLeft(s) == RepIf(Leftover(s), [s EXCEPT !.pend = <<>>, !.pout = <<>>],
                      V("predicted-step-not-observed", s, [decisions |-> s.pend, group |-> IF s.pout = <<>> THEN 0 ELSE Len(s.pout), pid |-> s.cur.pid, cc |-> s.cur.cc]))

\* the next group the end-of-stream dump hands to the parser: queues headed by a payload unit start, lowest PID first
RECURSIVE NextParsedDump(_)
NextParsedDump(qq) ==
  LET d == PP!DumpNext(qq) IN
  IF d.pid < 0 THEN d ELSE IF PP!Parsed(d.out) THEN d ELSE NextParsedDump(d.q)

OnPkt(s0, e) ==
  LET s == ClearLeft(s0)
      p == [pid |-> e.pid, cc |-> e.cc, pusi |-> e.pusi, hp |-> e.hp, tei |-> e.tei, disc |-> e.disc, pl |-> e.pl]
      r == PP!AddStep(s.q, s.pmap, p)
      s1 == RepIf(s.dumping, s, V("packet-after-end-of-stream-dump", s, [i |-> e.i]))
  IN [s1 EXCEPT !.q = r.q, !.pend = r.dec, !.pout = IF PP!Parsed(r.out) THEN r.out ELSE <<>>, !.cur = [pid |-> e.pid, cc |-> e.cc], !.n = s.n + 1]

OnAcc(s, e) ==
  IF s.pend # <<>> /\ Head(s.pend) = e.d /\ e.pid = s.cur.pid /\ e.cc = s.cur.cc THEN [s EXCEPT !.pend = Tail(s.pend)]
  ELSE Rep(s, V("decision-not-predicted", s, [d |-> e.d, pid |-> e.pid, cc |-> e.cc, expected |-> IF s.pend = <<>> THEN "none" ELSE Head(s.pend)]))

OnGroup(s, e) ==
  LET got == [pid |-> e.pid, ccs |-> e.ccs, n |-> e.n] IN
  IF s.pout # <<>> THEN
    RepIf(GroupOf(s.pout) # got, [s EXCEPT !.pout = <<>>], V("group-differs-from-predicted", s, [pid |-> e.pid, n |-> e.n, wantpid |-> s.pout[1].pid, wantn |-> Len(s.pout)]))
  ELSE LET d == NextParsedDump(s.q) IN
    IF s.pend # <<>> \/ d.pid < 0 THEN Rep(s, V("group-not-predicted", s, [pid |-> e.pid, n |-> e.n]))
    ELSE RepIf(GroupOf(d.out) # got, [s EXCEPT !.q = d.q, !.dumping = TRUE],
               V("dumped-group-differs-from-predicted", s, [pid |-> e.pid, n |-> e.n, wantpid |-> d.pid, wantn |-> Len(d.out)]))

\* PacketPool!Learn: only a PAT delivered on PID 0 teaches program map PIDs (a PAT-shaped section on another PID is just a section)
OnPat(s, e) == IF e.pid # 0 THEN s ELSE [s EXCEPT !.pmap = s.pmap \cup {e.progs[k][2] : k \in {j \in DOMAIN e.progs : e.progs[j][1] > 0}}]

OnEOF(s0, e) ==
  LET s == ClearLeft(s0)
      d == NextParsedDump(s.q)
  IN RepIf(d.pid >= 0, s, V("queue-not-handed-over-at-end-of-stream", s, [pid |-> d.pid, n |-> Len(d.out)]))

Step(s, e, i) ==
  LET s0 == [s EXCEPT !.at = i] IN
  CASE e.ev = "reset" -> St0(e.t, i)
    [] e.ev = "pkt" -> OnPkt(s0, e)
    [] e.ev = "acc" -> OnAcc(s0, e)
    [] e.ev = "group" -> OnGroup(s0, e)
    [] e.ev = "pat" -> OnPat(s0, e)
    [] e.ev = "eof" -> OnEOF(s0, e)
    [] e.ev = "panic" -> Rep(s0, V("panic", s0, [what |-> e.what]))
    [] e.ev = "hang" -> Rep(s0, V("no-end-of-stream", s0, [x |-> 0]))
    [] OTHER -> s

MInit == l = 1 /\ st = St0("none", 0)
MNext == /\ l <= Len(Trace)
         /\ l' = l + 1
         /\ st' = Step(st, Trace[l], l)
         /\ (l = Len(Trace)) => PrintT("DONE " \o ToString(l))
Spec == MInit /\ [][MNext]_mvars
=============================================================================
