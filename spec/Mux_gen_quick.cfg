SPECIFICATION Spec
CONSTANTS
  PIDS = {256, 257}
  RESV = {17}
  Period = 2
  MaxOps = 4
  Dev = {}
  LENS = {1, 171, 355}
  HDRS = {"pts"}
  AFS = {"none", "raipcr", "big", "bigrai", "huge"}
  BIGS = {FALSE, TRUE}
  PKTS = {"null", "toobig", "hugeaf"}
VIEW View
ACTION_CONSTRAINT ExportEdge
CHECK_DEADLOCK FALSE
