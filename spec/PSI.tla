-------------------------------- MODULE PSI --------------------------------
(* Reference encodings of PSI / SI sections (ISO/IEC 13818-1 2.4.4, ETSI EN
   300 468 5.2): PAT, PMT, SDT, NIT, EIT, TOT, with section header, syntax
   header, descriptor loops (Descriptors.tla) and CRC_32 (CRC32.tla).  A section
   value is the record the harness projects (harness/codec_psi.go):
     [k, tid, ssi, priv, ext, ver, cni, sn, lsn, ...body fields of the kind] *)
EXTENDS Descriptors, CRC32
L12(prefix4bits, n) == Pack(prefix4bits \o U(n, 12))
DescLoop(prefix4bits, ds) == LET l == Loop(ds) IN L12(prefix4bits, Len(l)) \o l
BCDSeconds(secs) == << BCDByte(secs \div 3600), BCDByte((secs \div 60) % 60), BCDByte(secs % 60) >>

PATBody(s) == Cat(s.progs, LAMBDA p : Pack(U(p.pn, 16) \o Ones(3) \o U(p.pid, 13)))
PMTBody(s) == Pack(Ones(3) \o U(s.pcr, 13)) \o DescLoop(Ones(4), s.pinfo)
              \o Cat(s.streams, LAMBDA e : << e.st >> \o Pack(Ones(3) \o U(e.pid, 13)) \o DescLoop(Ones(4), e.descs))
SDTBody(s) == Pack(U(s.onid, 16)) \o << 255 >>
              \o Cat(s.services, LAMBDA v : Pack(U(v.sid, 16) \o Ones(6) \o B(v.eits) \o B(v.eitpf)) \o DescLoop(U(v.run, 3) \o B(v.free), v.descs))
NITBody(s) == LET tss == Cat(s.tss, LAMBDA t : Pack(U(t.tsid, 16) \o U(t.onid, 16)) \o DescLoop(Ones(4), t.descs))
              IN DescLoop(Ones(4), s.ndescs) \o L12(Ones(4), Len(tss)) \o tss
EITBody(s) == Pack(U(s.tsid, 16) \o U(s.onid, 16)) \o << s.slsn, s.ltid >>
              \o Cat(s.events, LAMBDA v : Pack(U(v.id, 16)) \o DVBTimeBytes(v.start) \o BCDSeconds(v.dur) \o DescLoop(U(v.run, 3) \o B(v.free), v.descs))
TOTBody(s) == DVBTimeBytes(s.utc) \o DescLoop(Ones(4), s.descs)

HasSyntax(s) == s.k # "tot"
TableBody(s) == CASE s.k = "pat" -> PATBody(s) [] s.k = "pmt" -> PMTBody(s) [] s.k = "sdt" -> SDTBody(s)
                  [] s.k = "nit" -> NITBody(s) [] s.k = "eit" -> EITBody(s) [] s.k = "tot" -> TOTBody(s)
SyntaxHeader(s) == Pack(U(s.ext, 16) \o Ones(2) \o U(s.ver, 5) \o B(s.cni)) \o << s.sn, s.lsn >>
\* the bytes of the section after section_length and before the CRC_32
Inner(s) == (IF HasSyntax(s) THEN SyntaxHeader(s) ELSE <<>>) \o TableBody(s)
SectionLength(s) == Len(Inner(s)) + 4
NoCRC(s) == << s.tid >> \o Pack(B(s.ssi) \o B(s.priv) \o Ones(2) \o U(SectionLength(s), 12)) \o Inner(s)
\* a section of a table the library recognises but does not decode (BAT, DIT, RST, SIT, ST, TDT): header and section_length only
Opaque(s) == << s.tid >> \o Pack(B(s.ssi) \o B(s.priv) \o Ones(2) \o U(Len(s.raw), 12)) \o s.raw
Section(s) == IF s.k = "opaque" THEN Opaque(s) ELSE LET b == NoCRC(s) IN b \o Bytes4(Of(b))
CRCOf(s) == Of(NoCRC(s))
UnitF(ptr, filler, secs, trail) == << ptr >> \o Fill(filler, ptr) \o Cat(secs, Section) \o Fill(255, trail)     \* the pointer filler bytes may hold anything
Unit(ptr, secs, trail) == UnitF(ptr, 255, secs, trail)
=============================================================================
