------------------------------ MODULE CRCProps ------------------------------
(* Design-level facts about the CRC-32/MPEG-2 definition, checked by TLC over
   a family of messages: the check value, "pieces = one pass" at every split
   point, and residue 0 for message || checksum. *)
EXTENDS CRC32, TLC
CONSTANT N
VARIABLE k
Msg(j) == [i \in 1..(j % 23) |-> (i * 37 + j * 11) % 256]
Init == k = 0
Next == k < N /\ k' = k + 1
CheckValue == Of(<<49, 50, 51, 52, 53, 54, 55, 56, 57>>) = <<886, 59111>>       \* 0x0376E6E7 for "123456789"
Pieces == \A s \in 0..Len(Msg(k)) : Update(Update(Init32, SubSeq(Msg(k), 1, s)), SubSeq(Msg(k), s + 1, Len(Msg(k)))) = Of(Msg(k))
Residue == Update(Init32, Msg(k) \o Bytes4(Of(Msg(k)))) = <<0, 0>>
=============================================================================
