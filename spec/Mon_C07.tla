------------------------------ MODULE Mon_C07 ------------------------------
(* C07 - what is delivered for a PID depends only on that PID's packets.
   Trace (harness/demux.go:runMerge): the same per-PID packet sequences are
   demuxed by the real Demuxer in different multiplexes:
     variant r t (base|merge|insert|corrupt) cpid (the corrupted PID or -1)
     deliver run pid dg / derr run / eof run
   Runs 0..2 are the base order three times.  At the eof of every later run the
   per-PID delivered sequences must equal run 0's: for merges and insertions on
   every PID; for a corruption confined to PID a on every PID but a (and, when a
   is the PAT PID, but the PMT PIDs, which are known only through a PAT). *)
EXTENDS MonBase
VARIABLES l, st
vars == <<l, st>>
St0(t, i) == [tr |-> t, pmtpids |-> {}, base |-> EmptyFn, cur |-> EmptyFn, v |-> [r |-> -1, t |-> "none", cpid |-> -1, mode |-> "", k |-> ""], at |-> i, dupref |-> <<>>]
Init == l = 1 /\ st = St0("none", 0)
Q(f, pid) == IF pid \in DOMAIN f THEN f[pid] ELSE <<>>

OnEOF(s, e, i) ==
  LET s0 == [s EXCEPT !.at = i, !.cur = EmptyFn] IN
  IF s.v.r = 0 THEN [s0 EXCEPT !.base = s.cur]
  ELSE LET exempt == (IF s.v.cpid >= 0 THEN {s.v.cpid} ELSE {}) \cup (IF s.v.cpid = 0 THEN s.pmtpids ELSE {})
           pids == (DOMAIN s.base \cup DOMAIN s.cur) \ exempt
           bad == {p \in pids : Q(s.cur, p) # Q(s.base, p)}
           s1 == RepIf(bad # {}, s0, [prop |-> "C07", kind |-> "pid-output-depends-on-multiplex", trace |-> s.tr, at |-> i, run |-> s.v.r,
                               variant |-> s.v.t, mode |-> s.v.mode, k |-> s.v.k, pids |-> bad,
                               nbase |-> Len(Q(s.base, CHOOSE p \in bad : TRUE)), ngot |-> Len(Q(s.cur, CHOOSE p \in bad : TRUE))])
       \* variants "dupadj" / "dupsep": the PID's own sequence now holds an exact copy of its last packet - right behind the original in the
       \* first multiplex, behind a null packet in the second; the PID's output is the same in both (whatever the copy does to it)
       \* variants "resumeadj" / "resumesep": the input ends between two packets of the PID, more input arrives and the caller goes on; the
       \* PID's next packet comes first or behind a null packet (only this pair of runs is compared: units cut by the first end differ from the base)
       IN IF s.v.t = "resumeadj" THEN [s0 EXCEPT !.dupref = Q(s.cur, s.v.cpid)]
          ELSE IF s.v.t = "resumesep" THEN
            RepIf(Q(s.cur, s.v.cpid) # s.dupref, s0, [prop |-> "C07", kind |-> "pid-output-depends-on-multiplex", trace |-> s.tr, at |-> i, run |-> s.v.r,
                               variant |-> s.v.t, mode |-> s.v.mode, k |-> s.v.k, pids |-> {s.v.cpid},
                               nbase |-> Len(s.dupref), ngot |-> Len(Q(s.cur, s.v.cpid))])
          ELSE IF s.v.t = "dupadj" THEN [s1 EXCEPT !.dupref = Q(s.cur, s.v.cpid)]
          ELSE IF s.v.t = "dupsep" THEN
            RepIf(Q(s.cur, s.v.cpid) # s.dupref, s1, [prop |-> "C07", kind |-> "pid-output-depends-on-multiplex", trace |-> s.tr, at |-> i, run |-> s.v.r,
                               variant |-> s.v.t, mode |-> s.v.mode, k |-> s.v.k, pids |-> {s.v.cpid},
                               nbase |-> Len(s.dupref), ngot |-> Len(Q(s.cur, s.v.cpid))])
          ELSE s1

Step(s, e, i) ==
  CASE e.ev = "reset" -> St0(e.t, i)
    [] e.ev = "unit" -> [s EXCEPT !.pmtpids = IF \E k \in DOMAIN e.items : e.items[k].k = "pmt" THEN s.pmtpids \cup {e.pid} ELSE s.pmtpids]
    [] e.ev = "variant" -> [s EXCEPT !.v = [r |-> e.r, t |-> e.t, cpid |-> e.cpid, mode |-> e.mode, k |-> e.k], !.cur = EmptyFn]
    [] e.ev = "deliver" -> [s EXCEPT !.cur = SetFn(s.cur, e.pid, Append(Q(s.cur, e.pid), e.dg))]
    [] e.ev = "eof" -> OnEOF(s, e, i)
    [] e.ev = "hang" -> Rep(s, [prop |-> "C07", kind |-> "no-end-of-stream", trace |-> s.tr, at |-> i, variant |-> s.v.t])
    [] OTHER -> s

Next == /\ l <= Len(Trace)
        /\ l' = l + 1
        /\ st' = Step(st, Trace[l], l)
        /\ (l = Len(Trace)) => PrintT("DONE " \o ToString(l))
Spec == Init /\ [][Next]_vars
=============================================================================
