------------------------------ MODULE Mon_C05 ------------------------------
(* C05 - continuity counters advance by one per payload packet on every PID the
   Muxer emits (PAT, PMT, every elementary stream while it stays added).
   Same trace as C04.  Packets of a caller-built WritePacket are outside the
   property (the caller chooses their counter).  Context carried for the
   violation signature: the most recent failed call ("after") and whether an
   adaptation field too large for the PES header was requested ("bigaf"). *)
EXTENDS MonBase, TSBytes
VARIABLES l, st
vars == <<l, st>>
NoCC == 99
Init == l = 1 /\ st = [tr |-> "none", last |-> EmptyFn, op |-> "none", after |-> "none", bigaf |-> FALSE, at |-> 0, skip |-> FALSE]

Role(pid) == IF pid = PATPID THEN "pat" ELSE IF pid = PMTPID THEN "pmt" ELSE "es"

OnCall(s, e, i) ==
  LET s1 == [s EXCEPT !.op = e.op, !.at = i,
                      !.after = IF e.err # "nil" THEN e.op \o ":" \o e.err ELSE s.after,
                      !.bigaf = (e.op = "data" /\ Get(e, "afbig", FALSE))]
      \* a call during which the io.Writer itself failed (fault-injection histories): when the writer took nothing of it, no counter value
      \* may have been consumed (the packets were withheld); when it took a part, the counters on the wire are whatever that part carried -
      \* tracking starts afresh
      \* - except when the failing Write took everything it was given and the call left whole packets only (it merely reported an error):
      \* the wire then carries exactly the packets the Muxer emitted, the counters go on as usual and a value consumed by a packet that
      \* was never emitted (the PMT behind a PAT whose write "failed") shows as a gap
      wf == Get(e, "wfail", FALSE) /\ ~(Get(e, "wfull", FALSE) /\ e.part = 0)
      s2 == [s1 EXCEPT !.skip = wf, !.last = IF wf /\ e.delta > 0 THEN EmptyFn ELSE s1.last]
  IN IF e.op = "remove" /\ e.err = "nil" THEN [s2 EXCEPT !.last = DelFn(s2.last, e.pid)] ELSE s2

OnPkt(s, e, i) ==
  LET b == e.b
      h == Hdr(b)
      prev == IF h.pid \in DOMAIN s.last THEN s.last[h.pid] ELSE NoCC
      counted == s.op # "packet" /\ HasPL(h)
      ok == (~counted) \/ prev = NoCC \/ h.cc = (prev + 1) % 16
      \* a packet without payload does not advance the counter (ISO 13818-1 2.4.3.3): it carries the value of the packet before it; when it is
      \* the first packet of its PID, the payload packet after it carries that value plus one - what a receiver checks either way
      afonly == s.op # "packet" /\ ~HasPL(h) /\ HasAF(h)
      okaf == (~afonly) \/ prev = NoCC \/ h.cc = prev
      s0 == RepIf(~okaf, s, [prop |-> "C05", kind |-> "adaptation-only-packet-counter", trace |-> s.tr, at |-> s.at, pkt |-> i, pid |-> h.pid,
                             role |-> Role(h.pid), prev |-> prev, got |-> h.cc, op |-> s.op])
      s1 == IF counted \/ (afonly /\ prev = NoCC) THEN [s0 EXCEPT !.last = SetFn(s.last, h.pid, h.cc)] ELSE s0
  IN RepIf(~ok, s1, [prop |-> "C05", kind |-> "cc-gap", trace |-> s.tr, at |-> s.at, pkt |-> i, pid |-> h.pid,
                     role |-> Role(h.pid), prev |-> prev, got |-> h.cc, after |-> s.after, bigaf |-> s.bigaf, op |-> s.op])

Step(s, e, i) ==
  CASE e.ev = "reset" -> [tr |-> e.t, last |-> EmptyFn, op |-> "none", after |-> "none", bigaf |-> FALSE, at |-> i, skip |-> FALSE]
    [] e.ev = "call" -> OnCall(s, e, i)
    [] e.ev = "pkt" -> IF s.skip THEN s ELSE OnPkt(s, e, i)
    [] OTHER -> s

Next == /\ l <= Len(Trace)
        /\ l' = l + 1
        /\ st' = Step(st, Trace[l], l)
        /\ (l = Len(Trace)) => PrintT("DONE " \o ToString(l))
Spec == Init /\ [][Next]_vars
=============================================================================
