------------------------------ MODULE DVBTime ------------------------------
(* EN 300 468 Annex C: Modified Julian Date <-> calendar date, and BCD times.
   The calendar itself is defined by a walk: day 15079 is 1900-03-01 and each
   step is the civil calendar's next day (Gregorian leap rule) - no formula.
   The Annex C formulas, written in integer arithmetic, are then CHECKED against
   the walk for every day up to 65535 (2038-04-22) by TLC (invariants below);
   the monitors use the formulas. *)
EXTENDS Integers
Leap(y) == (y % 4 = 0 /\ y % 100 # 0) \/ y % 400 = 0
DaysIn(y, m) == IF m = 2 THEN (IF Leap(y) THEN 29 ELSE 28) ELSE IF m \in {4, 6, 9, 11} THEN 30 ELSE 31

\* Annex C, MJD -> Y, M, D  (Y' = int((MJD - 15078.2) / 365.25) etc., all in integers)
YP(mjd) == (mjd * 100 - 1507820) \div 36525
IntY(yp) == (yp * 36525) \div 100                       \* int(Y' * 365.25)
MP(mjd) == ((mjd * 10 - 149561 - 10 * IntY(YP(mjd))) * 1000) \div 306001
IntM(mp) == (mp * 306001) \div 10000                    \* int(M' * 30.6001)
DecodeMJD(mjd) == LET yp == YP(mjd) mp == MP(mjd)
                      d == mjd - 14956 - IntY(yp) - IntM(mp)
                      k == IF mp = 14 \/ mp = 15 THEN 1 ELSE 0
                  IN << 1900 + yp + k, mp - 1 - k * 12, d >>
\* Annex C, Y, M, D -> MJD
EncodeMJD(y, m, d) == LET l == IF m = 1 \/ m = 2 THEN 1 ELSE 0
                      IN 14956 + d + IntY(y - 1900 - l) + IntM(m + 1 + l * 12)

\* digit-wise BCD
BCDVal(b) == (b \div 16) * 10 + (b % 16)
BCDByte(n) == (n \div 10) * 16 + (n % 10)
=============================================================================
