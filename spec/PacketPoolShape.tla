-------------------------- MODULE PacketPoolShape --------------------------
(* The shape lemma of spec/PacketPool.tla for one PID, with isPSIComplete replaced by an arbitrary oracle: whatever the payload
   bytes make isPSIComplete answer, the queue and every group returned are runs (payload packets without transport error,
   continuity counters consecutive modulo 16, only the first packet may start a payload unit).  Discharged by Apalache as an
   inductive invariant over symbolic queues (any contents, all 16 counter values, up to 8 packets long - the step only looks at
   the last packet, so the bound on the length is not essential): IndInit /\ Next => IndInv', and Init => IndInv. *)
EXTENDS Integers, Sequences, Apalache

(* @typeAlias: pkt = { cc: Int, pusi: Bool, hp: Bool, tei: Bool, disc: Bool }; *)
PacketPoolShape_aliases == TRUE

VARIABLES
  \* @type: Seq($pkt);
  qq,
  \* @type: Seq($pkt);
  out

\* @type: (Seq($pkt)) => Bool;
Run(ps) == /\ \A i \in DOMAIN ps : ps[i].hp /\ ~ps[i].tei /\ ps[i].cc \in 0..15
           /\ \A i \in DOMAIN ps : i < Len(ps) => (ps[i + 1].cc = (ps[i].cc + 1) % 16 /\ ~ps[i + 1].pusi)

\* @type: (Seq($pkt), $pkt) => Bool;
Dup(mps, p) == Len(mps) > 0 /\ p.hp /\ p.cc = mps[Len(mps)].cc
\* @type: (Seq($pkt), $pkt) => Bool;
Disc(mps, p) == p.disc \/ (Len(mps) > 0 /\ ((p.hp /\ p.cc # (mps[Len(mps)].cc + 1) % 16) \/ (~p.hp /\ p.cc # mps[Len(mps)].cc)))

\* @type: ($pkt, Bool) => Bool;
Add(p, early) ==
  IF p.tei \/ ~p.hp THEN qq' = qq /\ out' = <<>>
  ELSE IF Dup(qq, p) THEN qq' = qq /\ out' = <<>>
  ELSE LET m1 == IF Disc(qq, p) THEN <<>> ELSE qq
           ps1 == IF p.pusi THEN m1 ELSE <<>>
           m2 == Append(IF p.pusi THEN <<>> ELSE m1, p)
       IN /\ out' = IF early THEN m2 ELSE ps1
          /\ qq' = IF early THEN <<>> ELSE m2

Init == qq = <<>> /\ out = <<>>
Next == \E cc \in 0..15, pusi \in BOOLEAN, hp \in BOOLEAN, tei \in BOOLEAN, disc \in BOOLEAN, early \in BOOLEAN :
          Add([cc |-> cc, pusi |-> pusi, hp |-> hp, tei |-> tei, disc |-> disc], early)

IndInv == Run(qq) /\ Run(out)
IndInit == qq = Gen(8) /\ out = Gen(8) /\ IndInv
=============================================================================
