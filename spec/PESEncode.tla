------------------------------ MODULE PESEncode ------------------------------
(* Reference encoding of a PES packet header (ISO/IEC 13818-1 2.4.3.6/2.4.3.7)
   as bit layouts.  A header value is the record the harness projects
   (harness/proj.go:projPESHeader):
     [sid, opt (<<>> or <<o>>)]
     o = [scr, prio, align, copy, orig, ind, pts, dts (<<>> or <<<<hi,lo>>>>), escr (<<>> or <<<<hi,lo>>, ext>>),
          esrate (<<>> or <<n>>), trick (<<>> or <<t>>), aci (<<>> or <<n>>), crc (<<>> or <<n>>), ext (<<>> or <<x>>)]
     t = <<control, ...>> per control value;  x = [priv, pack, seq, pstd, ext2]
   plen is the PES_packet_length to put on the wire, hstuff the number of 0xFF stuffing bytes in the header. *)
EXTENDS Bits
Present(f) == f # <<>>
\* stream ids whose PES packets have no optional header (ISO/IEC 13818-1 2.4.3.7: the PES_packet syntax's first condition):
\* program_stream_map, padding_stream, private_stream_2, ECM, EMM, DSMCC_stream, ITU-T H.222.1 type E, program_stream_directory
NoOpt(sid) == sid \in {188, 190, 191, 240, 241, 242, 248, 255}
TrickByte(t) ==
  LET c == t[1] IN
  Pack(U(c, 3) \o (CASE c \in {0, 3} -> U(t[2], 2) \o U(t[3], 1) \o U(t[4], 2)
                     [] c = 2 -> U(t[2], 2) \o Ones(3)
                     [] c \in {1, 4} -> U(t[2], 5)
                     [] OTHER -> Ones(5)))
\* what a trick-mode byte means (decode direction, any reserved bits)
TrickDecode(b) ==
  LET c == b \div 32 IN
  CASE c \in {0, 3} -> << c, (b \div 8) % 4, (b \div 4) % 2, b % 4 >>
    [] c = 2 -> << c, (b \div 8) % 4 >>
    [] c \in {1, 4} -> << c, b % 32 >>
    [] OTHER -> << c >>
ESCRBytes(e) == LET b == W(e[1], 33) IN
  Pack(Ones(2) \o SubSeq(b, 1, 3) \o <<1>> \o SubSeq(b, 4, 18) \o <<1>> \o SubSeq(b, 19, 33) \o <<1>> \o U(e[2], 9) \o <<1>>)
ExtBytes(x) ==
  Pack(B(Present(x.priv)) \o B(Present(x.pack)) \o B(Present(x.seq)) \o B(Present(x.pstd)) \o Ones(3) \o B(Present(x.ext2)))
  \o (IF Present(x.priv) THEN x.priv[1] ELSE <<>>)
  \o (IF Present(x.pack) THEN << x.pack[1] >> \o [i \in 1..x.pack[1] |-> 170] ELSE <<>>)      \* pack_field_length, then that many pack_header bytes (skipped by a PES decoder)
  \o (IF Present(x.seq) THEN Pack(<<1>> \o U(x.seq[1], 7) \o <<1>> \o U(x.seq[2], 1) \o U(x.seq[3], 6)) ELSE <<>>)
  \o (IF Present(x.pstd) THEN Pack(<<0, 1>> \o U(x.pstd[1], 1) \o U(x.pstd[2], 13)) ELSE <<>>)
  \o (IF Present(x.ext2) THEN Pack(<<1>> \o U(Len(x.ext2[1]), 7)) \o x.ext2[1] ELSE <<>>)
OptData(o) ==
     (IF o.ind = 2 THEN TS33(2, o.pts[1]) ELSE IF o.ind = 3 THEN TS33(3, o.pts[1]) \o TS33(1, o.dts[1]) ELSE <<>>)
  \o (IF Present(o.escr) THEN ESCRBytes(o.escr) ELSE <<>>)
  \o (IF Present(o.esrate) THEN Pack(<<1>> \o U(o.esrate[1], 22) \o <<1>>) ELSE <<>>)
  \o (IF Present(o.trick) THEN TrickByte(o.trick[1]) ELSE <<>>)
  \o (IF Present(o.aci) THEN Pack(<<1>> \o U(o.aci[1], 7)) ELSE <<>>)
  \o (IF Present(o.crc) THEN Pack(U(o.crc[1], 16)) ELSE <<>>)
  \o (IF Present(o.ext) THEN ExtBytes(o.ext[1]) ELSE <<>>)
OptHeader(o, hstuff) ==
  LET data == OptData(o) \o Fill(255, hstuff) IN
  Pack(<<1, 0>> \o U(o.scr, 2) \o B(o.prio) \o B(o.align) \o B(o.copy) \o B(o.orig)
       \o U(o.ind, 2) \o B(Present(o.escr)) \o B(Present(o.esrate)) \o B(Present(o.trick)) \o B(Present(o.aci)) \o B(Present(o.crc)) \o B(Present(o.ext)))
  \o <<Len(data)>> \o data
OptLen(h, hstuff) == IF NoOpt(h.sid) \/ h.opt = <<>> THEN 0 ELSE Len(OptHeader(h.opt[1], hstuff))
Encode(h, plen, hstuff) ==
  <<0, 0, 1, h.sid>> \o Pack(U(plen, 16)) \o (IF NoOpt(h.sid) \/ h.opt = <<>> THEN <<>> ELSE OptHeader(h.opt[1], hstuff))
\* the writer's PES_packet_length rule: 0 for video stream ids (0xE0, 0xFD) or when it does not fit 16 bits
IsVideo(sid) == sid \in {224, 253}
WriterPLen(h, paylen) == LET n == paylen + OptLen(h, 0) IN IF IsVideo(h.sid) \/ n > 65535 THEN 0 ELSE n

\* ClockReference.Duration(): base / 90 kHz + ext / 27 MHz in (seconds, nanoseconds); exact arithmetic on limbs
Digits(hl) == << hl[1] \div 65536, (hl[1] \div 256) % 256, hl[1] % 256, hl[2] \div 256, hl[2] % 256 >>
RECURSIVE LongDiv(_, _, _, _)
LongDiv(ds, i, q, r) == IF i > Len(ds) THEN <<q, r>>
                        ELSE LET t == r * 256 + ds[i] IN LongDiv(ds, i + 1, q * 256 + t \div 90000, t % 90000)
DurationLo(hl, ext) ==                                       \* floor(a) + floor(b)
  LET qr == LongDiv(Digits(hl), 1, 0, 0)
      n == 11111 * qr[2] + qr[2] \div 9 + (ext * 1000) \div 27
  IN << qr[1] + n \div 1000000000, n % 1000000000 >>
DurationHi(hl, ext) ==                                       \* floor(a + b)
  LET qr == LongDiv(Digits(hl), 1, 0, 0)
      carry == IF (3 * (qr[2] % 9)) + ((ext * 1000) % 27) >= 27 THEN 1 ELSE 0
      n == 11111 * qr[2] + qr[2] \div 9 + (ext * 1000) \div 27 + carry
  IN << qr[1] + n \div 1000000000, n % 1000000000 >>
=============================================================================
