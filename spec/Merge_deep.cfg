SPECIFICATION Spec
CONSTANT Vectors <- VecDeep
INVARIANTS MergeOK Export
CHECK_DEADLOCK FALSE
