INIT Init
NEXT Next
INVARIANTS LenConsistent Known
CHECK_DEADLOCK FALSE
