------------------------------- MODULE CRC32 -------------------------------
(* CRC-32/MPEG-2 from its definition (ISO/IEC 13818-1 Annex A): polynomial
   0x04C11DB7, initial value 0xFFFFFFFF, most significant bit first, no
   reflection, no final XOR.  A 32-bit value is carried as <<hi16, lo16>>
   because TLC integers are 32-bit signed.  Bit by bit - no table. *)
EXTENDS Integers, Sequences, SequencesExt, Bitwise
PolyHi == 1217          \* 0x04C1
PolyLo == 7607          \* 0x1DB7
Init32 == <<65535, 65535>>
StepBit(c, bit) == LET hi == c[1] lo == c[2]
                       top == ((hi \div 32768) + bit) % 2
                       nhi == ((hi % 32768) * 2) + (lo \div 32768)
                       nlo == (lo % 32768) * 2
                   IN IF top = 1 THEN << nhi ^^ PolyHi, nlo ^^ PolyLo >> ELSE << nhi, nlo >>
Bits8(b) == << (b \div 128) % 2, (b \div 64) % 2, (b \div 32) % 2, (b \div 16) % 2, (b \div 8) % 2, (b \div 4) % 2, (b \div 2) % 2, b % 2 >>
StepByte(c, b) == FoldLeft(StepBit, c, Bits8(b))
Update(c, bs) == FoldLeft(StepByte, c, bs)          \* feed bs into state c
Of(bs) == Update(Init32, bs)
\* the table entry the byte-wise algorithm needs for index i: eight bit steps of the state i << 24 fed with zero bits
TableEntry(i) == FoldLeft(StepBit, <<i * 256, 0>>, <<0, 0, 0, 0, 0, 0, 0, 0>>)
Bytes4(c) == << c[1] \div 256, c[1] % 256, c[2] \div 256, c[2] % 256 >>
=============================================================================
