------------------------------ MODULE Mon_C04 ------------------------------
(* C04 - Muxer output is always whole, decodable 188-byte packets; byte counts
   are exact.  Trace vocabulary (recorded by harness/mux.go from the real
   Muxer writing into a recording io.Writer):
     reset  t, period
     call   op, pid, err, n (returned count), delta (bytes the writer accepted
            during the call), npk (= delta \div 188), part (= delta % 188), ...
     pkt    b (the 188 bytes), one event per whole packet of the delta
   The monitor constrains only what C04 states. *)
EXTENDS MonBase, TSBytes
VARIABLES l, st
vars == <<l, st>>

Init == l = 1 /\ st = [tr |-> "none", op |-> "none", pid |-> -1, err |-> "nil", started |-> FALSE, at |-> 0, skip |-> FALSE]

V(kind, s, e, more) ==
  [prop |-> "C04", kind |-> kind, trace |-> s.tr, at |-> s.at, op |-> s.op, err |-> s.err] @@ more

\* a call during which the io.Writer itself failed (fault-injection histories) is C18's business: what it left in the output is not
\* judged here - every call after it is (the Muxer must be exact again once the writer is)
OnCall(s, e, i) ==
  LET s1 == [s EXCEPT !.op = e.op, !.pid = e.pid, !.err = e.err, !.started = FALSE, !.at = i, !.skip = Get(e, "wfail", FALSE)]
  IN IF s1.skip THEN s1 ELSE
  LET s2 == RepIf(e.part # 0, s1, V("partial-packet", s1, e, [part |-> e.part, delta |-> e.delta]))
      s3 == RepIf(e.n # e.delta, s2, V("count-mismatch", s2, e, [n |-> e.n, delta |-> e.delta]))
  IN s3

PktProblems(s, b) ==
  LET h == Hdr(b)
      isPSI == h.pid \in {PATPID, PMTPID}
      isOwn == s.op = "data" /\ h.pid = s.pid
  IN IF b[1] # 71 THEN <<"sync-byte">>
     ELSE IF ~LenOK(b) THEN <<"length-inconsistent">>
     ELSE IF HasAF(h) /\ ~AFOK(b) THEN <<"adaptation-field-inconsistent">>
     ELSE IF s.op = "packet" THEN <<>>                      \* caller-built packet: structure only
     \* the null PID carries no unit: a null packet has no payload_unit_start, no adaptation field, no meaning (ISO 13818-1 2.4.3.3)
     ELSE IF h.pid = 8191 /\ (h.pusi = 1 \/ HasAF(h)) THEN <<"unit-on-the-null-pid">>
     ELSE IF isPSI THEN
            (IF h.pusi # 1 THEN <<"psi-without-pusi">>
             ELSE IF ~HasPL(h) THEN <<"psi-without-payload">>
             ELSE IF ~PSIInfo(b).ok THEN <<"psi-pointer-or-length">>
             ELSE <<>>)
     ELSE IF isOwn /\ HasPL(h) THEN
            (IF ~s.started THEN
                (IF h.pusi # 1 THEN <<"pes-first-without-pusi">>
                 ELSE IF ~StartsPES(b) THEN <<"pusi-without-start-code">>
                 ELSE <<>>)
             ELSE IF h.pusi = 1 THEN <<"pusi-inside-unit">> ELSE <<>>)
     ELSE IF isOwn THEN <<>>                                \* adaptation-only packet of the stream
     ELSE <<"unexpected-pid">>

OnPkt(s, e, i) ==
  LET b == e.b
      pr == IF Len(b) # 188 THEN <<"short-packet-event">> ELSE PktProblems(s, b)
      h == Hdr(b)
      s1 == IF Len(b) = 188 /\ s.op = "data" /\ h.pid = s.pid /\ HasPL(h) THEN [s EXCEPT !.started = TRUE] ELSE s
  IN IF pr = <<>> THEN s1
     ELSE Rep(s1, V(pr[1], s, e, [pid |-> IF Len(b) = 188 THEN h.pid ELSE -1, pkt |-> i]))

Step(s, e, i) ==
  CASE e.ev = "reset" -> [tr |-> e.t, op |-> "none", pid |-> -1, err |-> "nil", started |-> FALSE, at |-> i, skip |-> FALSE]
    [] e.ev = "call" -> OnCall(s, e, i)
    [] e.ev = "pkt" -> IF s.skip THEN s ELSE OnPkt(s, e, i)
    [] OTHER -> s

Next == /\ l <= Len(Trace)
        /\ l' = l + 1
        /\ st' = Step(st, Trace[l], l)
        /\ (l = Len(Trace)) => PrintT("DONE " \o ToString(l))
Spec == Init /\ [][Next]_vars
=============================================================================
