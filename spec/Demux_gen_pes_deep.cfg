SPECIFICATION Spec
CONSTANTS
  Roles <- RolesPES
  Templates <- TmplSmall
  Chunks <- ChunksSmall
  MaxPkts = 5
  MaxUnits = 2
  Faults = {}
  MaxFaults = 0
  CC0 = 14
  EarlyPMT = FALSE
  StartLike = FALSE
  Dev = {}
ACTION_CONSTRAINT ExportEdge
VIEW View
CHECK_DEADLOCK FALSE
