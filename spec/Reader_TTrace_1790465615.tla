---- MODULE Reader_TTrace_1790465615 ----
EXTENDS Sequences, TLCExt, Toolbox, Reader, Naturals, TLC

_expression ==
    LET Reader_TEExpression == INSTANCE Reader_TEExpression
    IN Reader_TEExpression!expression
----

_trace ==
    LET Reader_TETrace == INSTANCE Reader_TETrace
    IN Reader_TETrace!trace
----

_inv ==
    ~(
        TLCGet("level") = Len(_TETrace)
        /\
        pb = ("ok")
        /\
        S = (188)
        /\
        pos = (564)
        /\
        calls = (1)
        /\
        kind = ("plain")
        /\
        done = (FALSE)
        /\
        got = (193)
        /\
        out = (<<2>>)
    )
----

_init ==
    /\ out = _TETrace[1].out
    /\ pos = _TETrace[1].pos
    /\ done = _TETrace[1].done
    /\ S = _TETrace[1].S
    /\ calls = _TETrace[1].calls
    /\ pb = _TETrace[1].pb
    /\ got = _TETrace[1].got
    /\ kind = _TETrace[1].kind
----

_next ==
    /\ \E i,j \in DOMAIN _TETrace:
        /\ \/ /\ j = i + 1
              /\ i = TLCGet("level")
        /\ out  = _TETrace[i].out
        /\ out' = _TETrace[j].out
        /\ pos  = _TETrace[i].pos
        /\ pos' = _TETrace[j].pos
        /\ done  = _TETrace[i].done
        /\ done' = _TETrace[j].done
        /\ S  = _TETrace[i].S
        /\ S' = _TETrace[j].S
        /\ calls  = _TETrace[i].calls
        /\ calls' = _TETrace[j].calls
        /\ pb  = _TETrace[i].pb
        /\ pb' = _TETrace[j].pb
        /\ got  = _TETrace[i].got
        /\ got' = _TETrace[j].got
        /\ kind  = _TETrace[i].kind
        /\ kind' = _TETrace[j].kind

\* Uncomment the ASSUME below to write the states of the error trace
\* to the given file in Json format. Note that you can pass any tuple
\* to `JsonSerialize`. For example, a sub-sequence of _TETrace.
    \* ASSUME
    \*     LET J == INSTANCE Json
    \*         IN J!JsonSerialize("Reader_TTrace_1790465615.json", _TETrace)

=============================================================================

 Note that you can extract this module `Reader_TEExpression`
  to a dedicated file to reuse `expression` (the module in the 
  dedicated `Reader_TEExpression.tla` file takes precedence 
  over the module `Reader_TEExpression` below).

---- MODULE Reader_TEExpression ----
EXTENDS Sequences, TLCExt, Toolbox, Reader, Naturals, TLC

expression == 
    [
        \* To hide variables of the `Reader` spec from the error trace,
        \* remove the variables below.  The trace will be written in the order
        \* of the fields of this record.
        out |-> out
        ,pos |-> pos
        ,done |-> done
        ,S |-> S
        ,calls |-> calls
        ,pb |-> pb
        ,got |-> got
        ,kind |-> kind
        
        \* Put additional constant-, state-, and action-level expressions here:
        \* ,_stateNumber |-> _TEPosition
        \* ,_outUnchanged |-> out = out'
        
        \* Format the `out` variable as Json value.
        \* ,_outJson |->
        \*     LET J == INSTANCE Json
        \*     IN J!ToJson(out)
        
        \* Lastly, you may build expressions over arbitrary sets of states by
        \* leveraging the _TETrace operator.  For example, this is how to
        \* count the number of times a spec variable changed up to the current
        \* state in the trace.
        \* ,_outModCount |->
        \*     LET F[s \in DOMAIN _TETrace] ==
        \*         IF s = 1 THEN 0
        \*         ELSE IF _TETrace[s].out # _TETrace[s-1].out
        \*             THEN 1 + F[s-1] ELSE F[s-1]
        \*     IN F[_TEPosition - 1]
    ]

=============================================================================



Parsing and semantic processing can take forever if the trace below is long.
 In this case, it is advised to uncomment the module below to deserialize the
 trace from a generated binary file.

\*
\*---- MODULE Reader_TETrace ----
\*EXTENDS IOUtils, Reader, TLC
\*
\*trace == IODeserialize("Reader_TTrace_1790465615.bin", TRUE)
\*
\*=============================================================================
\*

---- MODULE Reader_TETrace ----
EXTENDS Reader, TLC

trace == 
    <<
    ([pb |-> "nil",S |-> 188,pos |-> 0,calls |-> 0,kind |-> "plain",done |-> FALSE,got |-> 0,out |-> <<>>]),
    ([pb |-> "ok",S |-> 188,pos |-> 376,calls |-> 0,kind |-> "plain",done |-> FALSE,got |-> 193,out |-> <<>>]),
    ([pb |-> "ok",S |-> 188,pos |-> 564,calls |-> 1,kind |-> "plain",done |-> FALSE,got |-> 193,out |-> <<2>>])
    >>
----


=============================================================================

---- CONFIG Reader_TTrace_1790465615 ----
CONSTANTS
    NPK = 3
    EXTRA = 0
    Sizes = { 188 , 189 , 192 }
    Kinds = { "seek" , "bufio" , "plain" }
    Short = TRUE
    Auto = TRUE
    Dev = { }

INVARIANT
    _inv

CHECK_DEADLOCK
    \* CHECK_DEADLOCK off because of PROPERTY or INVARIANT above.
    FALSE

INIT
    _init

NEXT
    _next

CONSTANT
    _TETrace <- _trace

ALIAS
    _expression
=============================================================================
\* Generated on Sat Sep 26 23:33:36 UTC 2026