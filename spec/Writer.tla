------------------------------- MODULE Writer -------------------------------
(* Model of how a composite writer of the library (writePacket, writePESHeader,
   writePSISection, WriteTables ...) talks to the caller's io.Writer through
   astikit.BitsWriter / BitsWriterBatch.

   A call is a sequence of segments; a segment is one BitsWriterBatch (or one
   direct Write): `writes` Write calls of `sz` bytes each.  A batch latches its
   first error and skips its remaining writes; the enclosing function consults
   the latch at the end of the segment iff `checked`.  When the latch is
   consulted and set, the call returns (n, err) with n = bytes it has counted
   so far (it counts a segment only after the segment succeeded).  The io.Writer
   fails at Write index FailAt, once or permanently; it either takes nothing
   (0, err) or takes the bytes and reports the failure with the full count
   (len(p), err) - io.Writer allows both ("oncefull" / "permfull").

   Deviation "UncheckedSegment": some segment returns without consulting its
   latch (packet.go:writePacketAdaptationField, IsOneByteStuffing branch, before
   the fix).  Deviation "FailureByShortCount": a write counts as failed only when
   its count is short (the error value is not looked at).  Dev = {} must satisfy
   Surfaced. *)
EXTENDS Integers, Sequences, TLC
CONSTANTS Shapes,      \* set of calls; a call is a sequence of [writes, sz, checked]
          MaxFail, Dev
VARIABLES shape, failAt, mode, seg, k, wcalls, accepted, counted, latch, fired, phase, ret
vars == <<shape, failAt, mode, seg, k, wcalls, accepted, counted, latch, fired, phase, ret>>

Checked(s) == IF "UncheckedSegment" \in Dev THEN s.checked ELSE TRUE

Init == /\ shape \in Shapes /\ failAt \in 0..MaxFail /\ mode \in {"once", "perm", "oncefull", "permfull"}
        /\ seg = 1 /\ k = 0 /\ wcalls = 0 /\ accepted = 0 /\ counted = 0 /\ latch = FALSE /\ fired = FALSE
        /\ phase = "run" /\ ret = [n |-> 0, err |-> FALSE]

Fails == IF mode \in {"once", "oncefull"} THEN wcalls = failAt ELSE wcalls >= failAt
Full == mode \in {"oncefull", "permfull"}

\* one Write call of the current segment (skipped when the batch has latched an error)
DoWrite ==
  /\ phase = "run" /\ seg <= Len(shape) /\ k < shape[seg].writes
  /\ k' = k + 1
  /\ IF latch THEN UNCHANGED <<wcalls, accepted, latch, fired>>
     ELSE /\ wcalls' = wcalls + 1
          /\ IF Fails THEN /\ fired' = TRUE
                            /\ accepted' = (IF Full THEN accepted + shape[seg].sz ELSE accepted)
                            /\ latch' = ~(Full /\ "FailureByShortCount" \in Dev)
             ELSE accepted' = accepted + shape[seg].sz /\ UNCHANGED <<latch, fired>>
  /\ UNCHANGED <<shape, failAt, mode, seg, counted, phase, ret>>

\* end of a segment: consult the latch (or not), count the segment, go on
EndSeg ==
  /\ phase = "run" /\ seg <= Len(shape) /\ k = shape[seg].writes
  /\ IF latch /\ Checked(shape[seg])
     THEN /\ phase' = "done" /\ ret' = [n |-> counted, err |-> TRUE]
          /\ UNCHANGED <<seg, k, counted, latch>>
     ELSE /\ seg' = seg + 1 /\ k' = 0 /\ latch' = FALSE
          /\ counted' = counted + shape[seg].writes * shape[seg].sz
          /\ UNCHANGED <<phase, ret>>
  /\ UNCHANGED <<shape, failAt, mode, wcalls, accepted, fired>>

Finish ==
  /\ phase = "run" /\ seg > Len(shape)
  /\ phase' = "done" /\ ret' = [n |-> counted, err |-> FALSE]
  /\ UNCHANGED <<shape, failAt, mode, seg, k, wcalls, accepted, counted, latch, fired>>

Next == DoWrite \/ EndSeg \/ Finish
Spec == Init /\ [][Next]_vars /\ WF_vars(Next)

\* call shapes taken from the code: writePacket with a one-byte stuffing AF (sync, header batch, AF early-return, payload);
\* writePacket with a full AF and padding; WriteTables (two direct Writes)
S(w, z, c) == [writes |-> w, sz |-> z, checked |-> c]
CodeShapes == { << S(1, 1, TRUE), S(3, 1, TRUE), S(1, 1, FALSE), S(1, 183, TRUE) >>,
                << S(1, 1, TRUE), S(3, 1, TRUE), S(4, 1, TRUE), S(1, 100, TRUE), S(3, 1, TRUE) >>,
                << S(1, 188, TRUE), S(1, 188, TRUE) >> }

\* C18 (writer half): the call during which the writer failed returns an error, and a count <= accepted
Surfaced == phase = "done" /\ fired => ret.err /\ ret.n <= accepted
Terminates == <>(phase = "done")
=============================================================================
