----------------------------- MODULE Descriptors -----------------------------
(* Reference encodings of the descriptors go-astits knows (ISO/IEC 13818-1
   2.6, ETSI EN 300 468 6.2 and Annex D), as bit layouts, plus the loop framing
   (descriptor_tag, descriptor_length, 12-bit loop length).  Written from the
   standards' syntax tables.  A descriptor value is the record the harness
   projects (harness/codec_desc.go:projDescriptor):
     [tag, k (kind), len (the struct's redundant Length field - never used here), ...fields of the kind]
   Byte strings are sequences of 0..255; 32-bit numbers are <<hi16, lo16>>. *)
EXTENDS Bits, DVBTime
B32(hl) == Pack(U(hl[1], 16) \o U(hl[2], 16))
Opt(flag, bytes) == IF flag THEN bytes ELSE <<>>
Lang3(l) == [i \in 1..3 |-> IF i <= Len(l) THEN l[i] ELSE 0]       \* ISO 639 codes are 3 bytes
Cat(items, F(_)) == FoldLeft(LAMBDA acc, x : acc \o F(x), <<>>, items)

BCDMinutes(mins) == << BCDByte(mins \div 60), BCDByte(mins % 60) >>
DVBTimeBytes(t) ==                      \* t = <<y, m, d, h, mi, s>>
  LET mjd == EncodeMJD(t[1], t[2], t[3]) IN << mjd \div 256, mjd % 256, BCDByte(t[4]), BCDByte(t[5]), BCDByte(t[6]) >>

VBIKnown(id) == id \in {1, 2, 4, 5, 6, 7}
VBIService(s) == IF VBIKnown(s.id)
                 THEN << s.id, Len(s.lines) >> \o [i \in DOMAIN s.lines |-> 192 + (IF s.lines[i][1] THEN 32 ELSE 0) + s.lines[i][2]]
                 ELSE << s.id, 1, 255 >>
TeletextItem(x) == Lang3(x.lang) \o Pack(U(x.type, 5) \o U(x.mag, 3) \o U(x.page \div 10, 4) \o U(x.page % 10, 4))
ExtItem(x) == << Len(x.desc) >> \o x.desc \o << Len(x.content) >> \o x.content
LTOItem(x) == Lang3(x.country) \o Pack(U(x.region, 6) \o <<1>> \o B(x.pol)) \o BCDMinutes(x.off) \o DVBTimeBytes(x.toc) \o BCDMinutes(x.next)

Body(d) ==
  CASE d.k = "user" -> d.data
    [] d.k = "unknown" -> d.data
    [] d.k = "ac3" ->
         Pack(B(d.hct) \o B(d.hbsid) \o B(d.hmain) \o B(d.hasvc) \o Ones(4))
         \o Opt(d.hct, <<d.ct>>) \o Opt(d.hbsid, <<d.bsid>>) \o Opt(d.hmain, <<d.main>>) \o Opt(d.hasvc, <<d.asvc>>) \o d.info
    [] d.k = "eac3" ->
         Pack(B(d.hct) \o B(d.hbsid) \o B(d.hmain) \o B(d.hasvc) \o B(d.mix) \o B(d.hs1) \o B(d.hs2) \o B(d.hs3))
         \o Opt(d.hct, <<d.ct>>) \o Opt(d.hbsid, <<d.bsid>>) \o Opt(d.hmain, <<d.main>>) \o Opt(d.hasvc, <<d.asvc>>)
         \o Opt(d.hs1, <<d.s1>>) \o Opt(d.hs2, <<d.s2>>) \o Opt(d.hs3, <<d.s3>>) \o d.info
    [] d.k = "avc" ->
         << d.profile >> \o Pack(B(d.c0) \o B(d.c1) \o B(d.c2) \o U(d.compat, 5)) \o << d.level >> \o Pack(B(d.still) \o B(d.h24) \o Ones(6))
    [] d.k = "component" -> Pack(U(d.scext, 4) \o U(d.sc, 4)) \o << d.ctype, d.ctag >> \o Lang3(d.lang) \o d.text
    [] d.k = "content" -> Cat(d.items, LAMBDA x : Pack(U(x[1], 4) \o U(x[2], 4)) \o << x[3] >>)
    [] d.k = "dsa" -> << d.type >>
    [] d.k = "extevent" ->
         LET items == Cat(d.items, ExtItem) IN
         Pack(U(d.num, 4) \o U(d.last, 4)) \o Lang3(d.lang) \o << Len(items) >> \o items \o << Len(d.text) >> \o d.text
    [] d.k = "extension" ->
         << d.xtag >> \o (IF d.xtag = 6 THEN Pack(B(d.mix) \o U(d.edit, 5) \o <<1>> \o B(d.hlang)) \o Opt(d.hlang, Lang3(d.lang)) \o d.priv
                          ELSE d.data)
    [] d.k = "iso639" -> Lang3(d.lang) \o << d.type >>
    [] d.k = "lto" -> Cat(d.items, LTOItem)
    [] d.k = "maxbitrate" -> Pack(Ones(2) \o U(d.rate \div 50, 22))
    [] d.k = "netname" -> d.name
    [] d.k = "parental" -> Cat(d.items, LAMBDA x : Lang3(x[1]) \o << x[2] >>)
    [] d.k = "pdi" -> B32(d.v)
    [] d.k = "pds" -> B32(d.v)
    [] d.k = "registration" -> B32(d.fid) \o d.info
    [] d.k = "service" -> << d.type, Len(d.provider) >> \o d.provider \o << Len(d.name) >> \o d.name
    [] d.k = "shortevent" -> Lang3(d.lang) \o << Len(d.name) >> \o d.name \o << Len(d.text) >> \o d.text
    [] d.k = "streamid" -> << d.ctag >>
    [] d.k = "subtitling" -> Cat(d.items, LAMBDA x : Lang3(x.lang) \o << x.type >> \o Pack(U(x.comp, 16) \o U(x.anc, 16)))
    [] d.k = "teletext" -> Cat(d.items, TeletextItem)
    [] d.k = "vbidata" -> Cat(d.services, VBIService)

Desc(d) == LET b == Body(d) IN << d.tag, Len(b) >> \o b
Loop(ds) == Cat(ds, Desc)
LoopWithLength(ds) == LET l == Loop(ds) IN Pack(Ones(4) \o U(Len(l), 12)) \o l
\* the value without the struct's redundant Length field
NoLen(d) == [x \in DOMAIN d \ {"len"} |-> d[x]]
NoLens(ds) == [i \in DOMAIN ds |-> NoLen(ds[i])]
=============================================================================
