------------------------------ MODULE DVBWalk ------------------------------
(* The calendar walk that validates the Annex C formulas of DVBTime.tla for every 16-bit MJD from 15079 on. *)
EXTENDS DVBTime
VARIABLES mjd, y, m, d
Init == mjd = 15079 /\ y = 1900 /\ m = 3 /\ d = 1
Next == /\ mjd < 65535 /\ mjd' = mjd + 1
        /\ IF d < DaysIn(y, m) THEN d' = d + 1 /\ UNCHANGED <<y, m>>
           ELSE IF m < 12 THEN d' = 1 /\ m' = m + 1 /\ UNCHANGED y
           ELSE d' = 1 /\ m' = 1 /\ y' = y + 1
DecodeAgrees == DecodeMJD(mjd) = <<y, m, d>>
EncodeAgrees == EncodeMJD(y, m, d) = mjd
LastDay == mjd = 65535 => <<y, m, d>> = <<2038, 4, 22>>
=============================================================================
