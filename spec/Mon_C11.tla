------------------------------ MODULE Mon_C11 ------------------------------
(* C11 - TS packet header and adaptation field are read and written per ISO
   13818-1.  Trace (harness/codec_ts.go): one `vec` event per packet value v:
     v      the value (projection of the Packet struct handed to the writer)
     wb, wn, werr   bytes, count and error of the real writer (Muxer.WritePacket into a recording writer)
     got    projection of what the real Demuxer.NextPacket parses from wb
     rb, rerr       bytes the Muxer.WritePacket emits for the parsed packet (re-emission)
     lib    library-supplied length fields the projection keeps aside
   Rules: wb = Encode(v) (TSEncode.tla) and wn = 188; got = v; rb = wb.
   `ref` events carry reference bytes the writer cannot produce (reserved bits 0,
   arbitrary stuffing bytes): only got = v is required there.
   Histories (part "stream"): the values are written by one Muxer between WriteTables / WriteData calls (wb = the bytes that
   WritePacket call added to the output) and read back by one Demuxer with a PacketSkipper; `vec` for the packets kept,
   `wvec` for the packets dropped, `sdone` with the number of packets returned. *)
EXTENDS MonBase, TSEncode
VARIABLES l, st
vars == <<l, st>>
Init == l = 1 /\ st = [tr |-> "none", at |-> 0]
V(kind, s, e, more) == [prop |-> "C11", kind |-> kind, trace |-> s.tr, at |-> s.at, class |-> e.class] @@ more

OnVec(s, e) ==
  LET want == Encode(e.v)
      s1 == RepIf(e.werr # "nil" \/ e.wn # 188 \/ e.wb # want, s,
                  V("write-differs-from-reference-encoding", s, e, [werr |-> e.werr, wn |-> e.wn,
                      firstdiff |-> IF Len(e.wb) # 188 THEN Len(e.wb) ELSE IF e.wb = want THEN 0 ELSE CHOOSE k \in 1..188 : e.wb[k] # want[k] /\ \A j \in 1..(k-1) : e.wb[j] = want[j]]))
      s2 == RepIf(e.werr = "nil" /\ e.wb = want /\ e.got # e.v, s1, V("parse-differs-from-value", s, e, [perr |-> e.perr]))
  IN RepIf(e.werr = "nil" /\ e.wb = want /\ e.perr = "nil" /\ (e.rerr # "nil" \/ e.rb # e.wb), s2, V("re-emission-not-identical", s, e, [rerr |-> e.rerr, rn |-> Len(e.rb)]))

\* a packet written in the middle of a Muxer history and dropped by the reading side's skipper: the write direction only
OnW(s, e) ==
  LET want == Encode(e.v) IN
  RepIf(e.werr # "nil" \/ e.wn # 188 \/ e.wb # want, s,
        V("write-differs-from-reference-encoding", s, e, [werr |-> e.werr, wn |-> e.wn,
            firstdiff |-> IF Len(e.wb) # 188 THEN Len(e.wb) ELSE IF e.wb = want THEN 0 ELSE CHOOSE k \in 1..188 : e.wb[k] # want[k] /\ \A j \in 1..(k-1) : e.wb[j] = want[j]]))
\* end of a history: the reading side returned exactly the packets its skipper kept
OnSDone(s, e) == RepIf(e.ok /\ e.want # e.got, s, V("packets-returned-differ-from-kept", s, e, [want |-> e.want, got |-> e.got]))

OnRef(s, e) == RepIf(e.got # e.v, s, V("parse-differs-from-value", s, e, [perr |-> e.perr]))

Step(s, e, i) ==
  LET s0 == [s EXCEPT !.at = i] IN
  CASE e.ev = "reset" -> [tr |-> e.t, at |-> i]
    [] e.ev = "vec" -> OnVec(s0, e)
    [] e.ev = "ref" -> OnRef(s0, e)
    [] e.ev = "wvec" -> OnW(s0, e)
    [] e.ev = "sdone" -> OnSDone(s0, e)
    [] OTHER -> s

Next == /\ l <= Len(Trace)
        /\ l' = l + 1
        /\ st' = Step(st, Trace[l], l)
        /\ (l = Len(Trace)) => PrintT("DONE " \o ToString(l))
Spec == Init /\ [][Next]_vars
=============================================================================
