INIT Init
NEXT Next
INVARIANT Known
CHECK_DEADLOCK FALSE
