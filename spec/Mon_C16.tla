------------------------------ MODULE Mon_C16 ------------------------------
(* C16 - returned results are never mutated later; independent instances do
   not interfere.  Trace (harness/alias.go):
   sequential part (several demuxers over different streams, calls interleaved by a seeded schedule):
     pool op (get|put) item inst      bytesPool activity (verif-tagged observer inside get / put)
     ret  inst h kind dg ranges callpool rbuf
          a returned Packet / DemuxerData: handle, digest of the whole value, backing-array ranges of every []byte
          reachable from it, ranges of the pool items used during the call, range of the instance's read buffer
          (addresses are order-preserving ranks)
     chk  h dg when                   the value's digest re-taken after later calls and at the end
     payload before after             digest of the caller's payload before / after Muxer.WriteData
   concurrent part (one goroutine per worker, run under the race detector):
     solo inst seq / conc inst seq    a worker's results alone / with all workers running at once
     pool op item (inst = -1)         recorded from inside the hook: a linearisation of the holders
     race n                           data-race reports of the Go race detector (appended by the orchestrator)
   Rules: digests never change; no returned byte range overlaps a pool item used in the call or the read buffer;
   get/put alternate per item (single holder) and every call releases what it took; the Muxer leaves the payload
   intact; concurrent results = solo results; no race report. *)
EXTENDS MonBase
VARIABLES l, st
vars == <<l, st>>
St0(t, i) == [tr |-> t, dg |-> EmptyFn, held |-> {}, solo |-> EmptyFn, at |-> i]
Init == l = 1 /\ st = St0("none", 0)
V(kind, s, more) == [prop |-> "C16", kind |-> kind, trace |-> s.tr, at |-> s.at] @@ more
Overlap(a, b) == a[1] < b[2] /\ b[1] < a[2]

OnRet(s, e) ==
  LET s1 == [s EXCEPT !.dg = SetFn(s.dg, e.h, e.dg)]
      poolHit == \E x \in DOMAIN e.ranges, y \in DOMAIN e.callpool : Overlap(e.ranges[x], e.callpool[y])
      bufHit == \E x \in DOMAIN e.ranges, y \in DOMAIN e.rbuf : e.rbuf[y][1] # e.rbuf[y][2] /\ Overlap(e.ranges[x], e.rbuf[y])
      s2 == RepIf(poolHit, s1, V("returned-slice-aliases-pooled-buffer", s, [rkind |-> e.kind, h |-> e.h]))
      s3 == RepIf(bufHit, s2, V("returned-slice-aliases-read-buffer", s, [rkind |-> e.kind, h |-> e.h]))
  IN RepIf(s.held # {}, s3, V("pool-item-held-after-return", s, [rkind |-> e.kind, n |-> Cardinality(s.held)]))

OnPool(s, e) ==
  IF e.op = "get" THEN RepIf(e.item \in s.held, [s EXCEPT !.held = s.held \cup {e.item}], V("pool-item-has-two-holders", s, [item |-> e.item, conc |-> (e.inst = -1)]))
  ELSE RepIf(e.item \notin s.held, [s EXCEPT !.held = s.held \ {e.item}], V("pool-item-put-without-holder", s, [item |-> e.item, conc |-> (e.inst = -1)]))

Step(s, e, i) ==
  LET s0 == [s EXCEPT !.at = i] IN
  CASE e.ev = "reset" -> St0(e.t, i)
    [] e.ev = "pool" -> OnPool(s0, e)
    [] e.ev = "ret" -> OnRet(s0, e)
    [] e.ev = "chk" -> RepIf(e.h \in DOMAIN s.dg /\ s.dg[e.h] # e.dg, s0, V("returned-value-changed-later", s0, [h |-> e.h, when |-> e.when]))
    [] e.ev = "payload" -> RepIf(e.before # e.after, s0, V("muxer-modified-caller-buffer", s0, [api |-> e.api]))
    [] e.ev = "solo" -> [s0 EXCEPT !.solo = SetFn(s.solo, e.inst, e.seq)]
    [] e.ev = "conc" -> RepIf(e.inst \notin DOMAIN s.solo \/ s.solo[e.inst] # e.seq, s0, V("concurrent-result-differs-from-solo", s0, [inst |-> e.inst, n |-> Len(e.seq)]))
    \* the same tiny input through a fresh Demuxer before and after other instances were used: same outcome
    [] e.ev = "first" -> [s0 EXCEPT !.solo = SetFn(s.solo, e.inst, e.seq)]
    [] e.ev = "again" -> RepIf(e.inst \notin DOMAIN s.solo \/ s.solo[e.inst] # e.seq, s0, V("result-depends-on-other-instances", s0, [inst |-> e.inst, phase |-> e.phase, n |-> Len(e.seq)]))
    [] e.ev = "concdone" -> RepIf(s.held # {}, s0, V("pool-item-held-after-return", s0, [rkind |-> "concurrent", n |-> Cardinality(s.held)]))
    [] e.ev = "race" -> RepIf(e.n > 0, s0, V("data-race-reported", s0, [n |-> e.n]))
    [] OTHER -> s

Next == /\ l <= Len(Trace)
        /\ l' = l + 1
        /\ st' = Step(st, Trace[l], l)
        /\ (l = Len(Trace)) => PrintT("DONE " \o ToString(l))
Spec == Init /\ [][Next]_vars
=============================================================================
