SPECIFICATION Spec
CONSTANTS
  PIDS = {256, 257}
  RESV = {17}
  Period = 3
  MaxOps = 7
  Dev = {}
  LENS = {1, 171, 355}
  HDRS = {"pts", "none"}
  AFS = {"none", "raipcr", "big", "bigrai", "huge"}
  BIGS = {FALSE, TRUE}
  PKTS = {"null", "toobig"}
INVARIANTS C04_Aligned C04_PUSI C17_TablesFirst C17_Period C17_AutoPid
PROPERTIES C05_CC C17_Version C17_RAP
VIEW View
CHECK_DEADLOCK FALSE
