SPECIFICATION Spec
CONSTANTS
  Roles <- RolesPSI
  Templates <- TmplSmall
  Chunks <- ChunksSmall
  MaxPkts = 4
  MaxUnits = 2
  Faults = {"null", "afonly", "tei"}
  MaxFaults = 0
  CC0 = 14
  EarlyPMT = FALSE
  StartLike = FALSE
  Dev = {}
INVARIANTS C07_InsertHarmless
VIEW View
CHECK_DEADLOCK FALSE
