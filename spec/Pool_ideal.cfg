SPECIFICATION Spec
CONSTANTS
  Inst <- I3
  Items <- It3
  MaxCalls = 2
  Dev = {}
INVARIANTS SingleHolder ReleasedOnReturn FreeConsistent Frozen
CHECK_DEADLOCK FALSE
