--------------------------- MODULE MC_PacketPool ---------------------------
EXTENDS PacketPool
\* ptr 0 + one-byte-body section of table 0 (complete) | the same announcing one byte more (needs a continuation) | a continuation byte |
\* ptr 0 + stuffing (complete at once) | a pointer field running past the payload
MCPayloads == { <<0, 0, 0, 1, 9>>, <<0, 0, 0, 2, 9>>, <<9>>, <<0, 255>>, <<7, 1>> }
MCPATPIDS == { {32} }
\* behaviours to replay: a sound one-program PAT is not needed (the model's Learn has no packet); payloads as above plus a section cut
\* after its table id and after the first length byte (the reads of isPSIComplete that can fail)
GenPayloads == { <<0, 0, 0, 1, 9>>, <<0, 0, 0, 2, 9>>, <<9>>, <<0, 255>>, <<7, 1>>, <<0, 0>>, <<0, 0, 0>>, <<1, 9>> }
=============================================================================
