SPECIFICATION Spec
CONSTANTS
  PIDS = {0, 32}
  CCMOD = 4
  CCS = {0, 1, 2, 3}
  PAYLOADS <- MCPayloads
  PATPIDS <- MCPATPIDS
  MaxSteps = 3
INVARIANTS QueuesAreRuns OutIsRun LostIsHeadlessOrIncomplete
VIEW View
CHECK_DEADLOCK FALSE
