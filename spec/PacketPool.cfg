SPECIFICATION Spec
CONSTANTS
  PIDS = {0, 32}
  CCMOD = 4
  PAYLOADS <- MCPayloads
  PATPIDS <- MCPATPIDS
  MaxSteps = 3
INVARIANTS QueuesAreRuns OutIsRun LostIsHeadlessOrIncomplete
CHECK_DEADLOCK FALSE
