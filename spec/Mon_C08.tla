------------------------------ MODULE Mon_C08 ------------------------------
(* C08 - demuxer output depends on the stream's bytes, not on how they are read
   or framed.  Trace (harness/demux.go:runReader): one stream, many
   configurations of reader kind x short-read schedule x explicit/auto packet
   size x frame size 188+k, each run through NextPacket and through NextData:
     cfg r size auto reader sched class / packet run hdg / peof|perr run / deliver run dg / derr run / eof run
   Run 0 is the reference (explicit 188, fully buffered bytes.Reader).  Every
   configuration of class "ref" (explicit size with any reader; auto-detection
   on a seekable or bufio reader) must return exactly the reference's packets
   and data; configurations of class "plainauto" (auto-detection on a reader
   that is neither seekable nor bufio, where the library documents packet loss)
   must agree with each other.  Class "trunc": a capture cut inside a packet (n whole packets + a few bytes), auto-detected,
   must give what the explicit-size run gives on the same bytes (truncref). *)
EXTENDS MonBase
VARIABLES l, st
vars == <<l, st>>
NoRef == <<"none">>
St0(t, i) == [tr |-> t, truncP |-> EmptyFn, truncD |-> EmptyFn, refP |-> NoRef, refD |-> NoRef, plainP |-> EmptyFn, plainD |-> EmptyFn, P |-> <<>>, D |-> <<>>,
              c |-> [r |-> -1, size |-> 188, auto |-> FALSE, reader |-> "", sched |-> "", class |-> "ref", ambig |-> FALSE], at |-> i]
Init == l = 1 /\ st = St0("none", 0)
V(kind, s, more) == [prop |-> "C08", kind |-> kind, trace |-> s.tr, at |-> s.at, auto |-> s.c.auto, reader |-> s.c.reader,
                     framed |-> (s.c.size > 188), fullreads |-> (s.c.sched = "full"),
                     \* the first frame of a 189..192-byte stream holds a 0x47 among its last bytes (offsets 188..size-1)
                     firstframe |-> IF s.c.ambig THEN "sync-like-byte-before-the-second-sync-byte" ELSE "plain"] @@ more

EndPackets(s, i) ==
  LET s0 == [s EXCEPT !.at = i] IN
  IF s.c.r = 0 THEN [s0 EXCEPT !.refP = s.P]
  ELSE IF s.c.class = "trunc" THEN RepIf(s.P # s.truncP[s.c.sched], s0, V("packets-differ-on-truncated-capture", s0, [name |-> s.c.sched, nref |-> Len(s.truncP[s.c.sched]), ngot |-> Len(s.P)]))
  ELSE IF s.c.class = "ref" THEN RepIf(s.P # s.refP, s0, V("packets-differ-from-reference", s0, [size |-> s.c.size, sched |-> s.c.sched, nref |-> Len(s.refP), ngot |-> Len(s.P)]))
  ELSE IF s.c.size \in DOMAIN s.plainP
       THEN RepIf(s.P # s.plainP[s.c.size], s0, V("plain-auto-runs-disagree", s0, [size |-> s.c.size, sched |-> s.c.sched, nfirst |-> Len(s.plainP[s.c.size]), ngot |-> Len(s.P)]))
       ELSE [s0 EXCEPT !.plainP = SetFn(s.plainP, s.c.size, s.P)]

EndData(s, i) ==
  LET s0 == [s EXCEPT !.at = i] IN
  IF s.c.r = 0 THEN [s0 EXCEPT !.refD = s.D]
  ELSE IF s.c.class = "trunc" THEN RepIf(s.D # s.truncD[s.c.sched], s0, V("data-differ-on-truncated-capture", s0, [name |-> s.c.sched, nref |-> Len(s.truncD[s.c.sched]), ngot |-> Len(s.D)]))
  ELSE IF s.c.class = "ref" THEN RepIf(s.D # s.refD, s0, V("data-differ-from-reference", s0, [size |-> s.c.size, sched |-> s.c.sched, nref |-> Len(s.refD), ngot |-> Len(s.D)]))
  ELSE IF s.c.size \in DOMAIN s.plainD
       THEN RepIf(s.D # s.plainD[s.c.size], s0, V("plain-auto-data-disagree", s0, [size |-> s.c.size, sched |-> s.c.sched, nfirst |-> Len(s.plainD[s.c.size]), ngot |-> Len(s.D)]))
       ELSE [s0 EXCEPT !.plainD = SetFn(s.plainD, s.c.size, s.D)]

Step(s, e, i) ==
  CASE e.ev = "reset" -> St0(e.t, i)
    [] e.ev = "cfg" -> [s EXCEPT !.c = [r |-> e.r, size |-> e.size, auto |-> e.auto, reader |-> e.reader, sched |-> e.sched, class |-> e.class, ambig |-> Get(e, "ambig", FALSE)], !.P = <<>>, !.D = <<>>]
    [] e.ev = "truncref" -> [s EXCEPT !.truncP = SetFn(s.truncP, e.name, e.P), !.truncD = SetFn(s.truncD, e.name, e.D)]
    [] e.ev = "packet" -> [s EXCEPT !.P = Append(s.P, e.hdg)]
    [] e.ev = "perr" -> EndPackets([s EXCEPT !.P = Append(s.P, "error")], i)
    [] e.ev = "peof" -> EndPackets(s, i)
    [] e.ev = "deliver" -> [s EXCEPT !.D = Append(s.D, e.dg)]
    [] e.ev = "derr" -> [s EXCEPT !.D = Append(s.D, "error")]
    [] e.ev = "eof" -> EndData(s, i)
    [] e.ev = "hang" -> EndData([s EXCEPT !.D = Append(s.D, "hang")], i)
    [] OTHER -> s

Next == /\ l <= Len(Trace)
        /\ l' = l + 1
        /\ st' = Step(st, Trace[l], l)
        /\ (l = Len(Trace)) => PrintT("DONE " \o ToString(l))
Spec == Init /\ [][Next]_vars
=============================================================================
