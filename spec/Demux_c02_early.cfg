SPECIFICATION Spec
CONSTANTS
  Roles <- RolesPSI
  Templates <- TmplSmall
  Chunks <- ChunksSmall
  MaxPkts = 5
  MaxUnits = 2
  Faults = {}
  MaxFaults = 0
  CC0 = 14
  EarlyPMT = TRUE
  StartLike = FALSE
  Dev = {}
INVARIANTS C02_Carried C02_NoReadAhead
VIEW View
CHECK_DEADLOCK FALSE
