-------------------------------- MODULE Bits --------------------------------
(* Bit-level building blocks for the layout specifications: big-endian fields
   of a given width, values wider than 31 bits carried as <<hi, lo16>> (TLC
   integers are 32-bit), packing of bit sequences into bytes. *)
EXTENDS Integers, Sequences, SequencesExt
\* w-bit big-endian representation of 0 <= v < 2^31 (bits above bit 30 are 0)
U(v, w) == [i \in 1..w |-> IF w - i > 30 THEN 0 ELSE (v \div (2 ^ (w - i))) % 2]
\* w-bit field from <<hi, lo>> with lo the low 16 bits (w >= 16)
W(hl, w) == U(hl[1], w - 16) \o U(hl[2], 16)
B(b) == IF b THEN <<1>> ELSE <<0>>
Ones(n) == [i \in 1..n |-> 1]
Zeros(n) == [i \in 1..n |-> 0]
Byte(b) == U(b, 8)
RECURSIVE BytesBits(_)
BytesBits(bs) == IF bs = <<>> THEN <<>> ELSE Byte(Head(bs)) \o BytesBits(Tail(bs))
\* pack a bit sequence (length multiple of 8) into bytes
Pack(bits) == [k \in 1..(Len(bits) \div 8) |->
                 bits[8*k-7] * 128 + bits[8*k-6] * 64 + bits[8*k-5] * 32 + bits[8*k-4] * 16 + bits[8*k-3] * 8 + bits[8*k-2] * 4 + bits[8*k-1] * 2 + bits[8*k]]
Concat(seqs) == FoldLeft(LAMBDA a, b : a \o b, <<>>, seqs)
Fill(x, n) == [i \in 1..n |-> x]
\* 33-bit timestamp in the 5-byte PTS/DTS layout: 4 prefix bits, ts[32..30], 1, ts[29..15], 1, ts[14..0], 1
TS33(prefix4, hl) == LET b == W(hl, 33) IN
  Pack(U(prefix4, 4) \o SubSeq(b, 1, 3) \o <<1>> \o SubSeq(b, 4, 18) \o <<1>> \o SubSeq(b, 19, 33) \o <<1>>)
=============================================================================
