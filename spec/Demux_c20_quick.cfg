SPECIFICATION Spec
CONSTANTS
  Roles <- RolesPSI
  Templates <- TmplSmall
  Chunks <- ChunksSmall
  MaxPkts = 5
  MaxUnits = 2
  Faults = {}
  MaxFaults = 0
  CC0 = 14
  EarlyPMT = TRUE
  StartLike = FALSE
  Dev = {}
INVARIANTS C20_RewindFresh C20_NoSeekClean
VIEW View
CHECK_DEADLOCK FALSE
