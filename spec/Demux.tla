------------------------------- MODULE Demux -------------------------------
(* System model of the demultiplexing side of go-astits at packet granularity:
   packetPool.addUnlocked / packetAccumulator.add (packet_pool.go), the early
   flush of complete PAT/PMT units (data.go:isPSIComplete), parseData's dispatch
   (PSI / PES / nothing), PSIData.toData, Demuxer.updateData (program map) and
   the EOF drain in PID order (demuxer.go:NextData, dumpUnlocked) - composed in
   lock-step with a generator of transport streams (StreamGen part) and with a
   fault channel (duplicate / drop) feeding a second, "faulted" demuxer.

   The model is length-accurate without carrying bytes: a unit is a template
   (PES: total bytes, header bytes, bounded?; PSI: pointer_field, section_length
   of each section, trailing 0xFF bytes); a packet carries a chunk (unit, off, n);
   isPSIComplete and parsePSIData / parsePESData are transcribed as arithmetic
   over the section boundaries and the number of bytes available.

   Dev = {} is the ideal; named deviations:
     "DiscBeforeDup"            the discontinuity test runs before the duplicate test (add)
     "NoPUSICheckOnGroupHead"   a group whose first packet has no payload_unit_start is parsed
                                (a continuation chunk starting 00 00 01 is delivered as a PES)
     "RewindKeepsBuffer" / "RewindKeepsPool"   Rewind leaves parsed-but-unreturned items / the accumulators in place  *)
EXTENDS Integers, Sequences, FiniteSets, TLC, Json
CONSTANTS Roles,        \* function PID -> "pat" | "pmt" | "si" | "es"
          Templates,    \* function role -> set of unit templates
          Chunks,       \* chunk sizes offered (besides "the rest of the unit")
          MaxPkts, MaxUnits,
          Faults,       \* subset of {"dup", "drop", "null", "afonly", "tei"}
          MaxFaults,
          CC0,          \* first continuity counter of every PID (14: the run crosses the 15 -> 0 wrap)
          EarlyPMT,     \* BOOLEAN: PMT PIDs may start before their PAT is complete (joining mid-stream); such units are optional
          StartLike,    \* BOOLEAN: offer continuation chunks that begin with 00 00 01
          Dev
VARIABLES cur, gcc, nunits, uid, units, lastpkt, patDone, npk, nfault, dropRun, hist,   \* generator + channel
          acc, pm, delivered, nread,                                                     \* faulted (= observed) demuxer
          accC, pmC, deliveredC, nreadC,                                                 \* clean twin
          hit,                                                                           \* units touched by a fault / preceding a gap
          optional                                                                       \* PMT-PID units complete before the first PAT is: a receiver cannot know them
gvars == <<cur, gcc, nunits, uid, units, lastpkt, patDone, npk, nfault, dropRun, hist>>
dvars == <<acc, pm, delivered, nread>>
cvars == <<accC, pmC, deliveredC, nreadC>>
vars == <<gvars, dvars, cvars, hit, optional>>

PIDs == DOMAIN Roles
HasDev(d) == d \in Dev
None == [u |-> 0]
Last(s) == s[Len(s)]

\* ---------------------------------------------------------------- unit layouts
SecLen(s) == 3 + s.slen
RECURSIVE SumSecs(_, _)
SumSecs(secs, j) == IF j = 0 THEN 0 ELSE SecLen(secs[j]) + SumSecs(secs, j - 1)
SecEnd(t, j) == 1 + t.ptr + SumSecs(t.secs, j)              \* bytes up to the end of section j (j = 0: before the first)
Total(t) == IF t.t = "pes" THEN t.total ELSE SecEnd(t, Len(t.secs)) + t.trail
Delivered(tid) == tid \in {0, 2, 64, 65, 66, 70, 115} \cup (78..111)     \* table ids that become DemuxerData
KindOf(tid) == CASE tid = 0 -> "pat" [] tid = 2 -> "pmt" [] tid \in {64, 65} -> "nit" [] tid \in {66, 70} -> "sdt"
                 [] tid \in 78..111 -> "eit" [] tid = 115 -> "tot" [] OTHER -> "none"

\* data.go:isPSIComplete over the first A bytes of a unit with template t
RECURSIVE PSICompleteFrom(_, _, _)
PSICompleteFrom(t, j, A) ==
  LET pos == SecEnd(t, j) IN
  IF pos >= A THEN pos = A
  ELSE IF j = Len(t.secs) THEN TRUE                         \* next byte is 0xFF stuffing: stop
  ELSE IF pos + 3 > A THEN FALSE                            \* section header not there yet
  ELSE PSICompleteFrom(t, j + 1, A)
PSIComplete(t, A) == A >= 1 /\ PSICompleteFrom(t, 0, A)

\* data_psi.go:parsePSIData over the first A bytes: number of sections parsed, or -1 for an error
RECURSIVE PSIParseFrom(_, _, _)
PSIParseFrom(t, j, A) ==
  LET pos == SecEnd(t, j) IN
  IF pos >= A THEN j
  ELSE IF j = Len(t.secs) THEN j
  ELSE IF SecEnd(t, j + 1) > A THEN -1                      \* truncated section: some read fails
  ELSE IF ~t.secs[j+1].crcok THEN -1
  ELSE PSIParseFrom(t, j + 1, A)

\* ---------------------------------------------------------------- groups (what the accumulator hands to parseData)
GroupBytes(g) == LET RECURSIVE S(_) S(i) == IF i = 0 THEN 0 ELSE g[i].n + S(i - 1) IN S(Len(g))
Clean(g) == /\ g[1].pusi /\ g[1].off = 0
            /\ \A i \in 1..(Len(g) - 1) : g[i+1].u = g[i].u /\ g[i+1].off = g[i].off + g[i].n /\ ~g[i+1].pusi
IsPSIPid(pid, pmap) == pid = 0 \/ pid \in pmap \/ pid \in 16..20 \/ pid \in 30..31

\* parseData: the items a group yields (sequence) and the program-map PIDs it teaches
Parse(us, g, pid, pmap, at) ==
  LET t == us[g[1].u].tmpl
      A == GroupBytes(g)
  IN IF pid = 1 THEN <<>>
     ELSE IF IsPSIPid(pid, pmap) THEN
            (IF ~Clean(g) \/ t.t # "psi" THEN <<>>                                       \* garbage: error or nothing
             ELSE LET m == PSIParseFrom(t, 0, A) IN
                  IF m = -1 THEN <<>>
                  ELSE SelectSeq([j \in 1..m |-> [pid |-> pid, k |-> KindOf(t.secs[j].tid), u |-> g[1].u, s |-> j, len |-> 0, at |-> at]],
                                 LAMBDA x : x.k # "none"))
     ELSE IF Clean(g) /\ t.t = "pes" THEN
            (IF A < t.hl THEN <<>>
             ELSE IF t.bounded /\ A < t.total THEN <<>>                                  \* PES_packet_length says more: error
             ELSE << [pid |-> pid, k |-> "pes", u |-> g[1].u, s |-> 0, len |-> A - t.hl, at |-> at] >>)
     ELSE IF ~Clean(g) /\ g[1].sl /\ HasDev("NoPUSICheckOnGroupHead") THEN
            << [pid |-> pid, k |-> "foreign", u |-> g[1].u, s |-> 0, len |-> A, at |-> at] >>
     ELSE <<>>

\* PMT PIDs taught by the PAT sections among items (every PAT template lists all PMT PIDs of Roles)
Learn(items, pmap) == IF \E i \in DOMAIN items : items[i].k = "pat" THEN pmap \cup {p \in PIDs : Roles[p] = "pmt"} ELSE pmap

\* ---------------------------------------------------------------- packetAccumulator.add
\* isPSIComplete on a queue: exact for clean groups; a queue that is not a clean prefix is garbage and never "complete" here
EarlyComplete(us, q) == Clean(q) /\ us[q[1].u].tmpl.t = "psi" /\ PSIComplete(us[q[1].u].tmpl, GroupBytes(q))

\* returns [q |-> new queue, flush |-> group handed to parseData or <<>>]
Add(us, q, p, pid, pmap) ==
  LET same(x) == x # <<>> /\ p.cc = Last(x).cc /\ p.pusi = Last(x).pusi /\ p.u = Last(x).u /\ p.off = Last(x).off /\ p.n = Last(x).n   \* same counter, same payload
      disc(x) == (p.disc /\ ~(p.pusi /\ x # <<>> /\ p.cc = (Last(x).cc + 1) % 16)) \/ (x # <<>> /\ p.cc # (Last(x).cc + 1) % 16)
      dupFirst == ~HasDev("DiscBeforeDup")
      isDup == IF dupFirst THEN same(q) ELSE (~disc(q)) /\ same(q)          \* as-is: after the reset the queue is empty, never "same"
      q1 == IF disc(q) THEN <<>> ELSE q
      fl1 == IF p.pusi THEN q1 ELSE <<>>
      q2 == IF p.pusi THEN <<p>> ELSE Append(q1, p)
      early == (pid = 0 \/ pid \in pmap) /\ EarlyComplete(us, q2)
  IN IF isDup THEN [q |-> q, flush |-> <<>>]
     ELSE IF early THEN [q |-> <<>>, flush |-> q2]          \* (a group flushed by PUSI in the same step is overwritten, as in the code)
     ELSE [q |-> q2, flush |-> fl1]

\* one packet through packetPool.addUnlocked + parseData + updateData; returns the new demuxer state
Feed(us, a, pmap, dl, n, p) ==
  LET n1 == n + 1 IN
  IF p.k \in {"null"} THEN [acc |-> a, pm |-> pmap, delivered |-> dl, nread |-> n1]      \* PID 0x1fff payload: own accumulator, never a unit
  ELSE IF p.k = "tei" \/ p.k = "afonly" THEN [acc |-> a, pm |-> pmap, delivered |-> dl, nread |-> n1]
  ELSE LET r == Add(us, a[p.pid], p, p.pid, pmap)
           items == IF r.flush = <<>> THEN <<>> ELSE Parse(us, r.flush, p.pid, pmap, n1)
       IN [acc |-> [a EXCEPT ![p.pid] = r.q], pm |-> Learn(items, pmap), delivered |-> dl \o items, nread |-> n1]

\* EOF drain: remaining queues in ascending PID order
RECURSIVE DrainFrom(_, _, _, _, _)
DrainFrom(us, a, pmap, todo, at) ==
  IF todo = {} THEN <<>>
  ELSE LET pid == CHOOSE x \in todo : \A y \in todo : x <= y
           items == IF a[pid] = <<>> THEN <<>> ELSE Parse(us, a[pid], pid, pmap, at)
       IN items \o DrainFrom(us, a, Learn(items, pmap), todo \ {pid}, at)
Drain(a, pmap, at) == DrainFrom(units, a, pmap, PIDs, at)

\* ---------------------------------------------------------------- generator (StreamGen) and channel
Init ==
  /\ cur = [p \in PIDs |-> None] /\ gcc = [p \in PIDs |-> CC0] /\ nunits = [p \in PIDs |-> 0]
  /\ uid = 0 /\ units = <<>> /\ lastpkt = <<>> /\ patDone = FALSE /\ npk = 0 /\ nfault = 0 /\ dropRun = [p \in PIDs |-> 0] /\ hist = <<>>
  /\ acc = [p \in PIDs |-> <<>>] /\ pm = {} /\ delivered = <<>> /\ nread = 0
  /\ accC = [p \in PIDs |-> <<>>] /\ pmC = {} /\ deliveredC = <<>> /\ nreadC = 0
  /\ hit = {} /\ optional = {}

ChunkOK(pid, t, off, n) ==
  LET tot == Total(t) IN
  /\ n >= 1 /\ n <= 184 /\ off + n <= tot
  /\ (t.t = "psi" /\ off = 0) => n >= t.ptr + 2                                     \* the PUSI packet carries the section's first byte
  /\ (t.t = "psi" /\ Roles[pid] \in {"pat", "pmt"}) =>                              \* no interior section boundary on a packet boundary
        \A j \in 1..(Len(t.secs) - 1) : off + n # SecEnd(t, j)
Sizes(rem) == {n \in Chunks : n <= rem} \cup {IF rem <= 184 THEN rem ELSE 184}

\* apply the channel's decision f to the clean packet p
Channel(us, p, f) ==
  LET c == Feed(us, accC, pmC, deliveredC, nreadC, p)
      d1 == IF f = "drop" THEN [acc |-> acc, pm |-> pm, delivered |-> delivered, nread |-> nread] ELSE Feed(us, acc, pm, delivered, nread, p)
      d2 == IF f = "dup" THEN Feed(us, d1.acc, d1.pm, d1.delivered, d1.nread, p) ELSE d1
  IN /\ accC' = c.acc /\ pmC' = c.pm /\ deliveredC' = c.delivered /\ nreadC' = c.nread
     /\ acc' = d2.acc /\ pm' = d2.pm /\ delivered' = d2.delivered /\ nread' = d2.nread
     /\ hist' = hist \o (IF f = "dup" THEN <<p, p @@ [f |-> "dup"]>> ELSE IF f = "drop" THEN <<p @@ [f |-> "drop"]>> ELSE <<p>>)
     /\ nfault' = IF f = "none" THEN nfault ELSE nfault + 1
     /\ dropRun' = IF p.k = "pl" THEN [dropRun EXCEPT ![p.pid] = IF f = "drop" THEN @ + 1 ELSE 0] ELSE dropRun

FaultChoices(pid) == {"none"} \cup (IF nfault < MaxFaults THEN (Faults \cap {"dup"}) \cup (IF dropRun[pid] < 15 THEN Faults \cap {"drop"} ELSE {}) ELSE {})

\* the unit a fault touches, and (for a drop) the unit preceding the gap, may legitimately be missing
Touch(f, u, prevu) == hit' = IF f = "drop" THEN (hit \cup {u, prevu}) \ {0} ELSE hit

Emit(us, pid, u, t, off, n, pusi, sl, f) ==
  LET p == [pid |-> pid, cc |-> gcc[pid], pusi |-> pusi, u |-> u, off |-> off, n |-> n, sl |-> sl, k |-> "pl", disc |-> FALSE]
      tot == Total(t)
      secend == IF t.t = "psi" THEN SecEnd(t, Len(t.secs)) ELSE tot
  IN /\ Channel(us, p, f)
     /\ gcc' = [gcc EXCEPT ![pid] = (@ + 1) % 16]
     /\ npk' = npk + 1
     /\ cur' = [cur EXCEPT ![pid] = IF off + n = tot THEN None ELSE [u |-> u, off |-> off + n]]
     /\ LET lp0 == IF u > Len(lastpkt) THEN Append(lastpkt, 0) ELSE lastpkt
        IN lastpkt' = IF off < secend /\ off + n >= secend THEN [lp0 EXCEPT ![u] = nreadC + 1] ELSE lp0
     /\ patDone' = (patDone \/ (Roles[pid] = "pat" /\ off + n >= secend))
     /\ optional' = IF Roles[pid] = "pmt" /\ ~patDone /\ off < secend /\ off + n >= secend THEN optional \cup {u} ELSE optional

Start(pid) ==
  /\ npk < MaxPkts /\ cur[pid] = None /\ nunits[pid] < MaxUnits
  /\ (Roles[pid] = "pmt" => (patDone \/ EarlyPMT))
  /\ \E t \in Templates[Roles[pid]] : \E n \in Sizes(Total(t)) : \E f \in FaultChoices(pid) :
       /\ ChunkOK(pid, t, 0, n)
       /\ uid' = uid + 1
       /\ units' = Append(units, [id |-> uid + 1, pid |-> pid, tmpl |-> t, early |-> (Roles[pid] = "pmt" /\ ~patDone)])
       /\ nunits' = [nunits EXCEPT ![pid] = @ + 1]
       /\ LET prevu == IF \E i \in DOMAIN units : units[i].pid = pid
                       THEN (CHOOSE i \in DOMAIN units : units[i].pid = pid /\ \A j \in DOMAIN units : units[j].pid = pid => j <= i) ELSE 0
          IN Touch(f, uid + 1, prevu)
       /\ Emit(Append(units, [id |-> uid + 1, pid |-> pid, tmpl |-> t, early |-> (Roles[pid] = "pmt" /\ ~patDone)]), pid, uid + 1, t, 0, n, TRUE, FALSE, f)

Cont(pid) ==
  /\ npk < MaxPkts /\ cur[pid] # None
  /\ LET u == cur[pid].u  t == units[u].tmpl  off == cur[pid].off IN
     \E n \in Sizes(Total(t) - off) : \E f \in FaultChoices(pid) : \E sl \in (IF StartLike /\ t.t = "pes" /\ off >= t.hl /\ n >= 4 THEN BOOLEAN ELSE {FALSE}) :
       /\ ChunkOK(pid, t, off, n)
       /\ Touch(f, u, u)
       /\ Emit(units, pid, u, t, off, n, FALSE, sl, f)
       /\ UNCHANGED <<uid, units, nunits>>

\* stuffing packets between the units' packets (C07): null packets, adaptation-only and transport-error packets naming a PID.
\* Only the observed demuxer receives them; the clean twin sees the stream without them.
Insert(k, pid) ==
  /\ npk < MaxPkts /\ k \in Faults
  /\ \E c \in {(gcc[pid] + 15) % 16, (gcc[pid] + 3) % 16} :                     \* the PID's last counter (as ISO asks), or an arbitrary one
       LET p == [pid |-> (IF k = "null" THEN 8191 ELSE pid), cc |-> c, pusi |-> FALSE, u |-> 0, off |-> 0, n |-> 0, sl |-> FALSE, k |-> k, disc |-> FALSE]
           d == Feed(units, acc, pm, delivered, nread, p)
       IN /\ acc' = d.acc /\ pm' = d.pm /\ delivered' = d.delivered /\ nread' = d.nread
          /\ hist' = Append(hist, p @@ [ins |-> TRUE])
  /\ npk' = npk + 1
  /\ UNCHANGED <<cur, gcc, nunits, uid, units, lastpkt, patDone, hit, nfault, dropRun, cvars, optional>>

Next ==
  \/ \E pid \in PIDs : Start(pid) \/ Cont(pid)
  \/ \E pid \in PIDs, k \in {"null", "afonly", "tei"} : Insert(k, pid)
Spec == Init /\ [][Next]_vars

\* ---------------------------------------------------------------- properties of the design (Dev = {})
Quiescent == \A p \in PIDs : cur[p] = None
PerPid(s, pid) == SelectSeq(s, LAMBDA x : x.pid = pid)
Ids(s) == [i \in DOMAIN s |-> <<s[i].k, s[i].u, s[i].s, s[i].len>>]
\* the items a complete stream carries, per PID in order
RECURSIVE ItemsOf(_, _)
ItemsOf(pid, i) ==
  IF i > Len(units) THEN <<>>
  ELSE LET un == units[i] t == un.tmpl
           mine == IF un.pid # pid \/ un.id \in optional THEN <<>>
                   ELSE IF t.t = "pes" THEN << <<"pes", un.id, 0, t.total - t.hl>> >>
                   ELSE LET js == SelectSeq([j \in 1..Len(t.secs) |-> j], LAMBDA j : KindOf(t.secs[j].tid) # "none" /\ t.secs[j].crcok)
                        IN [x \in DOMAIN js |-> <<KindOf(t.secs[js[x]].tid), un.id, js[x], 0>>]
       IN mine \o ItemsOf(pid, i + 1)
FinalF == delivered \o Drain(acc, pm, nread + 1)
FinalC == deliveredC \o Drain(accC, pmC, nreadC + 1)

\* C02: at every quiescent point the clean demuxer has delivered / will drain exactly the carried units, per PID in order
NotEarly(s) == SelectSeq(s, LAMBDA x : x.u \notin optional)
C02_Carried == (Quiescent /\ nfault = 0) => \A pid \in PIDs : Ids(NotEarly(PerPid(FinalC, pid))) = ItemsOf(pid, 1)
\* C02: a PAT/PMT is delivered by the call that reads its final packet
C02_NoReadAhead == \A i \in DOMAIN deliveredC : (deliveredC[i].k \in {"pat", "pmt"} /\ deliveredC[i].u \notin optional) => deliveredC[i].at = lastpkt[deliveredC[i].u]
\* C06: duplicates never remove or alter; on PES PIDs the output is identical
OnlyDups == \A i \in DOMAIN hist : "f" \in DOMAIN hist[i] => hist[i].f = "dup"
RECURSIVE IsSubseq(_, _)
IsSubseq(a, b) == IF a = <<>> THEN TRUE ELSE IF b = <<>> THEN FALSE
                  ELSE IF Head(a) = Head(b) THEN IsSubseq(Tail(a), Tail(b)) ELSE IsSubseq(a, Tail(b))
C06_DupHarmless == (Quiescent /\ OnlyDups) => \A pid \in PIDs :
                      IF Roles[pid] = "es" THEN Ids(PerPid(FinalF, pid)) = Ids(PerPid(FinalC, pid))
                      ELSE IsSubseq(Ids(PerPid(FinalC, pid)), Ids(PerPid(FinalF, pid)))
\* C06: after loss every delivered unit is a unit of the loss-free output; only hit units may be missing
LossDomain == \A p \in PIDs : dropRun[p] = 0                 \* every gap is followed by a later payload packet of the PID
C06_LossSafe == (Quiescent /\ LossDomain) => \A pid \in PIDs :
                   LET f == Ids(PerPid(FinalF, pid)) c == Ids(PerPid(FinalC, pid)) IN
                   /\ \A i \in DOMAIN f : \E j \in DOMAIN c : f[i] = c[j]
                   /\ \A j \in DOMAIN c : (\E i \in DOMAIN f : f[i] = c[j]) \/ c[j][2] \in hit
\* C07: a PID's deliveries depend on its own packets only.  Interleavings are explored by Next itself (any PID may move);
\* inserted null / adaptation-only / transport-error packets must leave every PID's deliveries unchanged:
C07_InsertHarmless == (Quiescent /\ nfault = 0) => \A pid \in PIDs : Ids(PerPid(FinalF, pid)) = Ids(PerPid(FinalC, pid))

\* ---------------------------------------------------------------- Rewind (C20)
\* demuxer.go:Rewind after j packets were read and i of the items produced so far were taken by the caller: the data buffer and the
\* packet pool and the program map are replaced; the stream is then read again from its first packet.
\*   "RewindKeepsProgramMap"  the PMT PIDs learnt before the rewind survive it (PMT-PID units that precede their PAT, or a PID that
\*                            carries an elementary stream before a later PAT makes it a PMT PID, are then treated differently)
\*   "RewindKeepsBuffer"   items parsed but not yet returned survive the rewind
\*   "RewindKeepsPool"     the accumulators survive the rewind
RECURSIVE RunPkts(_, _, _, _)
RunPkts(us, s, pkts, i) == IF i > Len(pkts) THEN s ELSE RunPkts(us, Feed(us, s.acc, s.pm, s.delivered, s.nread, pkts[i]), pkts, i + 1)
State0(pmap, buf) == [acc |-> [p \in PIDs |-> <<>>], pm |-> pmap, delivered |-> buf, nread |-> 0]
Total0(s) == s.delivered \o DrainFrom(units, s.acc, s.pm, PIDs, s.nread + 1)
FreshRun == Total0(RunPkts(units, State0({}, <<>>), hist, 1))
AfterRewind(j, i) ==
  LET sj == RunPkts(units, State0({}, <<>>), SubSeq(hist, 1, j), 1)
      buf == IF HasDev("RewindKeepsBuffer") THEN SubSeq(sj.delivered, i + 1, Len(sj.delivered)) ELSE <<>>
      a0 == IF HasDev("RewindKeepsPool") THEN sj.acc ELSE [p \in PIDs |-> <<>>]
      pm0 == IF HasDev("RewindKeepsProgramMap") THEN sj.pm ELSE {}
  IN Total0(RunPkts(units, [acc |-> a0, pm |-> pm0, delivered |-> buf, nread |-> 0], hist, 1))
\* the same on a reader that cannot seek (Rewind reports -1, the reader stays where it is): the demuxer goes on with the rest of the
\* input as a fresh one would - the per-pass state is dropped all the same
Suffix(j) == SubSeq(hist, j + 1, Len(hist))
FreshSuffix(j) == Total0(RunPkts(units, State0({}, <<>>), Suffix(j), 1))
AfterRewindNoSeek(j, i) ==
  LET sj == RunPkts(units, State0({}, <<>>), SubSeq(hist, 1, j), 1)
      buf == IF HasDev("RewindKeepsBuffer") THEN SubSeq(sj.delivered, i + 1, Len(sj.delivered)) ELSE <<>>
      a0 == IF HasDev("RewindKeepsPool") THEN sj.acc ELSE [p \in PIDs |-> <<>>]
      pm0 == IF HasDev("RewindKeepsProgramMap") THEN sj.pm ELSE {}
  IN Total0(RunPkts(units, [acc |-> a0, pm |-> pm0, delivered |-> buf, nread |-> 0], Suffix(j), 1))
TakenAt(j) == LET sj == RunPkts(units, State0({}, <<>>), SubSeq(hist, 1, j), 1) IN 0..Len(sj.delivered)
\* after Rewind at any point of consumption the demuxer delivers what a fresh one delivers - also when PMT-PID units precede their PAT
\* (EarlyPMT = TRUE), where a kept program map ("RewindKeepsProgramMap") makes the difference
C20_NoSeekClean == (Quiescent /\ nfault = 0) =>
                     \A j \in 0..Len(hist) : \A i \in TakenAt(j) : Ids(AfterRewindNoSeek(j, i)) = Ids(FreshSuffix(j))
C20_RewindFresh == (Quiescent /\ nfault = 0) =>
                     \A j \in 0..Len(hist) : \A i \in TakenAt(j) : Ids(AfterRewind(j, i)) = Ids(FreshRun)

View == <<cur, gcc, nunits, patDone, npk, nfault, dropRun, acc, pm, accC, pmC, hit, optional, [i \in DOMAIN units |-> <<units[i].pid, units[i].tmpl, units[i].early>>]>>
\* what the model says the clean demuxer delivers in total (deliveries so far + EOF drain), for transitions that end in a quiescent state:
\* replayed into the real Demuxer and compared delivery by delivery (model -> code conformance, reported as drift)
QuiescentP == \A p \in PIDs : cur'[p] = None
PredP == IF QuiescentP
         THEN LET f == deliveredC' \o DrainFrom(units', accC', pmC', PIDs, nreadC' + 1)
              IN [i \in DOMAIN f |-> <<f[i].pid, f[i].k, f[i].u, f[i].s, f[i].len>>]
         ELSE <<>>
ExportEdge == PrintT("SCN " \o ToJson([units |-> units', pkts |-> hist', pmtpids |-> {p \in PIDs : Roles[p] = "pmt"},
                                         quiescent |-> QuiescentP, pred |-> PredP]))
=============================================================================
