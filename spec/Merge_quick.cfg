SPECIFICATION Spec
CONSTANT Vectors <- VecQuick
INVARIANTS MergeOK Export
CHECK_DEADLOCK FALSE
