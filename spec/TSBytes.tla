------------------------------ MODULE TSBytes ------------------------------
(* An ISO/IEC 13818-1 2.4.3 transport packet decoder over a sequence of 188
   byte values (1-based).  Independent of the Go code: written from the
   standard's syntax tables.  Used by the C04/C05/C17/C01 monitors. *)
EXTENDS Integers, Sequences
PATPID == 0
PMTPID == 4096
NULLPID == 8191

Hdr(b) == [ sync |-> b[1],
            tei  |-> b[2] \div 128,
            pusi |-> (b[2] \div 64) % 2,
            prio |-> (b[2] \div 32) % 2,
            pid  |-> (b[2] % 32) * 256 + b[3],
            scr  |-> b[4] \div 64,
            afc  |-> (b[4] \div 16) % 4,
            cc   |-> b[4] % 16 ]

HasAF(h) == h.afc \in {2, 3}
HasPL(h) == h.afc \in {1, 3}
AFLen(b) == b[5]                                   \* adaptation_field_length (only if HasAF)
\* offset (1-based index) of the first payload byte
PayloadStart(b) == LET h == Hdr(b) IN IF HasAF(h) THEN 5 + 1 + AFLen(b) ELSE 5
PayloadLen(b) == 188 - PayloadStart(b) + 1

\* length consistency of 2.4.3.4: afc=01: 184 payload bytes; afc=10: af_len = 183; afc=11: af_len in 0..182
LenOK(b) == LET h == Hdr(b) IN
  CASE h.afc = 1 -> TRUE
    [] h.afc = 2 -> AFLen(b) = 183
    [] h.afc = 3 -> AFLen(b) \in 0..182
    [] OTHER -> FALSE

\* size of the optional parts announced by the flags byte; -1 if they run past the field
AFOptLen(b) ==
  LET afl == AFLen(b)
      fl == b[6]
      f(k) == (fl \div (2 ^ k)) % 2
      p0 == 7                                      \* index of first optional byte
      aPCR == 6 * f(4)
      aOPCR == 6 * f(3)
      aSpl == f(2)
      privIdx == p0 + aPCR + aOPCR + aSpl
      endIdx == 5 + afl                            \* index of the last AF byte
      aPriv == IF f(1) = 1 THEN (IF privIdx <= endIdx THEN 1 + b[privIdx] ELSE 999) ELSE 0
      extIdx == privIdx + aPriv
      aExt == IF f(0) = 1 THEN (IF extIdx <= endIdx THEN 1 + b[extIdx] ELSE 999) ELSE 0
      tot == aPCR + aOPCR + aSpl + aPriv + aExt
  IN IF 1 + tot <= afl THEN tot ELSE -1

\* adaptation field internally consistent: optional parts fit, remaining bytes are 0xFF stuffing
AFOK(b) ==
  LET afl == AFLen(b) IN
  IF afl = 0 THEN TRUE
  ELSE LET o == AFOptLen(b) IN
       /\ o >= 0
       /\ \A i \in (7 + o)..(5 + afl) : b[i] = 255

AFFlag(b, k) == IF AFLen(b) = 0 THEN 0 ELSE (b[6] \div (2 ^ k)) % 2
RAI(b) == HasAF(Hdr(b)) /\ AFFlag(b, 6) = 1

StartsPES(b) == LET s == PayloadStart(b) IN
  PayloadLen(b) >= 4 /\ b[s] = 0 /\ b[s+1] = 0 /\ b[s+2] = 1

\* PSI packet with payload_unit_start: pointer_field, then a section that fits, then 0xFF stuffing
PSIInfo(b) ==
  LET s == PayloadStart(b)
      n == PayloadLen(b)
      ptr == b[s]
      t == s + 1 + ptr                             \* index of table_id
      ok1 == n >= 1 /\ 1 + ptr + 3 <= n
      slen == (b[t+1] % 16) * 256 + b[t+2]
      e == t + 2 + slen                            \* index of last section byte
  IN IF ~ok1 THEN [ok |-> FALSE, tid |-> -1, start |-> 0, end |-> 0, slen |-> 0]
     ELSE [ok |-> e <= 188 /\ \A i \in (e+1)..188 : b[i] = 255,
           tid |-> b[t], start |-> t, end |-> e, slen |-> slen]
=============================================================================
