SPECIFICATION Spec
CONSTANTS
  Roles <- Roles2
  Templates <- TmplSmall
  Chunks <- ChunksSmall
  MaxPkts = 5
  MaxUnits = 3
  Faults = {"dup", "drop"}
  MaxFaults = 1
  CC0 = 14
  EarlyPMT = FALSE
  StartLike = TRUE
  Dev = {}
ACTION_CONSTRAINT ExportEdge
VIEW View
CHECK_DEADLOCK FALSE
