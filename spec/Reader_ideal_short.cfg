SPECIFICATION Spec
CONSTANTS
  NPK = 1
  EXTRA = 100
  Sizes = {188, 189, 192}
  Kinds = {"seek", "bufio", "plain"}
  Short = TRUE
  Auto = TRUE
  Dev = {}
INVARIANTS SameAsFull EndsInBoundedCalls EOFAbsorbing
CHECK_DEADLOCK FALSE
