------------------------------- MODULE Merge -------------------------------
(* All order-preserving merges of k packet sequences (C07's schedule
   quantifier): the multiplex may interleave the PIDs' packets in any way that
   keeps each PID's own order.  Vectors is a set of count vectors (one count per
   sequence); TLC enumerates every complete interleaving of every vector and
   exports it as the sequence of sequence indices ("MRG {counts, order}"). *)
EXTENDS Integers, Sequences, TLC, Json
CONSTANT Vectors
VARIABLES counts, prog, order
vars == <<counts, prog, order>>
Init == counts \in Vectors /\ prog = [i \in DOMAIN counts |-> 0] /\ order = <<>>
Take(i) == /\ prog[i] < counts[i]
           /\ prog' = [prog EXCEPT ![i] = @ + 1]
           /\ order' = Append(order, i)
           /\ UNCHANGED counts
Next == \E i \in DOMAIN counts : Take(i)
Spec == Init /\ [][Next]_vars
Done == \A i \in DOMAIN counts : prog[i] = counts[i]
\* each merge is a distinct behaviour: no VIEW; export at the final state
Export == Done => PrintT("MRG " \o ToJson([counts |-> counts, order |-> order]))
\* every merge keeps each sequence's own order (trivially by construction) and is complete
MergeOK == Done => \A i \in DOMAIN counts : Len(SelectSeq(order, LAMBDA x : x = i)) = counts[i]
=============================================================================
