-------------------------------- MODULE Mux --------------------------------
(* System model of astits.Muxer (muxer.go, packet.go:writePacket,
   wrapping_counter.go), one action per public call, with the packetisation
   loop of WriteData transcribed as arithmetic over byte lengths.

   State = the muxer's own fields (stream list, per-PID continuity counters,
   PAT/PMT counters, 5-bit versions, dirty flags, PCR PID, next automatic PID,
   retransmit counter) + what the last call handed to the writer (out, ret).
   History/ghost variables (hidden by VIEW) carry what the properties talk
   about across calls.

   Dev is the set of named deviations from the ideal that a tree exhibits
   (DESIGN.md Appendix B).  Dev = {} must satisfy every invariant below; a
   non-empty Dev reproduces the defect's shortest history as a counterexample.

   Packets are abstract: [pid, cc, pusi, pl (has payload), af (bytes of the
   adaptation field incl. its length byte), n (payload bytes), kind, ver]. *)
EXTENDS Integers, Sequences, FiniteSets, TLC, Json
CONSTANTS PIDS,        \* explicit PIDs callers use
          RESV,        \* explicit PIDs callers try that are reserved for PSI/SI (below 0x20), the null PID or wider than 13 bits: refused
          Period,      \* tables retransmit period
          MaxOps,      \* history bound
          Dev,         \* deviations present
          LENS,        \* payload lengths offered to WriteData
          HDRS,        \* PES header classes offered
          AFS,         \* adaptation-field classes offered
          PKTS,        \* WritePacket kinds offered
          BIGS         \* subset of BOOLEAN: whether streams with a descriptor too large for a one-packet PMT are offered
VARIABLES streams,     \* sequence of PIDs in insertion order
          escc,        \* pid -> 0..16 (16 = never used)
          patCC, pmtCC, patVer, pmtVer, pmDirty, pmtDirty, pcr, nextPid, rtx,
          nauto,       \* number of automatic assignments so far
          bigs,        \* PIDs added with a descriptor that makes the PMT too large for one packet
          out,         \* abstract packets handed to the writer by the last call
          ret,         \* [n, err] returned by the last call
          partial,     \* bytes handed to the writer outside whole packets by the last call
          nops,
          \* ghost
          lastOut, seenTables, seenPES, changedSince, lastPmtVerOut, sinceAuto, hist
vars == <<streams, escc, patCC, pmtCC, patVer, pmtVer, pmDirty, pmtDirty, pcr, nextPid, rtx, nauto, bigs,
          out, ret, partial, nops, lastOut, seenTables, seenPES, changedSince, lastPmtVerOut, sinceAuto, hist>>

PATPID == 0
PMTPID == 4096
StartPID == 256
Inc(c, wrap) == IF c + 1 > wrap THEN 0 ELSE c + 1
SeqToSet(s) == {s[i] : i \in DOMAIN s}
HasDev(d) == d \in Dev
Min(a, b) == IF a < b THEN a ELSE b

\* on-wire sizes (ISO 13818-1 2.4.3.6 / 2.4.3.4), the same classes harness/proj.go concretises
HdrLen(h) == CASE h = "none" -> 6 [] h = "bare" -> 9 [] h = "pts" -> 14 [] h = "ptsdts" -> 19 [] h = "full" -> 55
AFTot(a) == CASE a = "none" -> 0 [] a = "rai" -> 2 [] a = "pcr" -> 8 [] a = "raipcr" -> 8 [] a = "priv10" -> 13
              [] a = "rich" -> 33 [] a = "big" -> 183 [] a = "bigrai" -> 179
              [] a = "huge" -> 193                        \* alone larger than a packet: the call is refused (ErrAdaptationFieldTooBig)
AFRai(a) == a \in {"rai", "raipcr", "bigrai"}

Init ==
  /\ streams = <<>> /\ escc = [p \in {} |-> 0]
  /\ patCC = 16 /\ pmtCC = 16 /\ patVer = 32 /\ pmtVer = 32
  /\ pmDirty = TRUE /\ pmtDirty = FALSE /\ pcr = 0
  /\ nextPid = IF HasDev("AutoPidFromZero") THEN 0 ELSE StartPID
  /\ rtx = Period /\ nauto = 0 /\ bigs = {}
  /\ out = <<>> /\ ret = [n |-> 0, err |-> "nil"] /\ partial = 0 /\ nops = 0
  /\ lastOut = [p \in {} |-> 0] /\ seenTables = FALSE /\ seenPES = FALSE /\ changedSince = FALSE
  /\ lastPmtVerOut = 99 /\ sinceAuto = 0 /\ hist = <<>>

Pred(pkts, n, e, part) == [n |-> n, err |-> e, part |-> part,
                           pk |-> [i \in DOMAIN pkts |-> <<pkts[i].pid, pkts[i].cc, IF pkts[i].pusi THEN 1 ELSE 0, pkts[i].af, pkts[i].n>>]]

\* ---- what reaches the writer, and the ghosts derived from it
Emit(op, pkts, n, e, part) ==
  /\ out' = pkts /\ ret' = [n |-> n, err |-> e] /\ partial' = part
  /\ hist' = Append(hist, op @@ [pred |-> Pred(pkts, n, e, part)])
  /\ lastOut' = [p \in DOMAIN lastOut \cup {pkts[i].pid : i \in DOMAIN pkts} |->
                   LET idx == {i \in DOMAIN pkts : pkts[i].pid = p /\ pkts[i].pl}
                   IN IF idx = {} THEN (IF p \in DOMAIN lastOut THEN lastOut[p] ELSE 99)
                      ELSE pkts[CHOOSE i \in idx : \A j \in idx : j <= i].cc]
  /\ seenTables' = (seenTables \/ \E i \in DOMAIN pkts : pkts[i].kind = "pat")
  /\ seenPES' = (seenPES \/ \E i \in DOMAIN pkts : pkts[i].kind = "pes")
  /\ lastPmtVerOut' = LET idx == {i \in DOMAIN pkts : pkts[i].kind = "pmt"}
                      IN IF idx = {} THEN lastPmtVerOut ELSE pkts[CHOOSE i \in idx : \A j \in idx : j <= i].ver

Quiet(op, e) == Emit(op, <<>>, 0, e, 0)

\* ---- configuration calls
\* smallest PID >= from that is neither used nor reserved
FreePid(from) == CHOOSE q \in from..(from + Len(streams) + 2) :
                   /\ q \notin SeqToSet(streams) /\ q # PMTPID
                   /\ \A r \in from..(q-1) : r \in SeqToSet(streams) \/ r = PMTPID

Add(p, big) ==
  /\ nops < MaxOps /\ nops' = nops + 1
  /\ LET auto == (p = 0)
         np == IF auto THEN (IF HasDev("AutoPidFromZero") THEN nextPid ELSE FreePid(nextPid)) ELSE p
         dup == (~auto) /\ np \in SeqToSet(streams)
         op == [op |-> "add", pid |-> p, st |-> 27, dk |-> IF big THEN "ud161" ELSE "none"]        \* ud161: the PMT is exactly one byte too large for one packet
     IN IF dup
        THEN /\ UNCHANGED <<streams, escc, pmtDirty, nextPid, changedSince, nauto, bigs>>
             /\ Quiet(op, "pidexists")
        ELSE /\ streams' = Append(streams, np)
             /\ escc' = [q \in DOMAIN escc \cup {np} |->      \* a PID added again resumes its counter
                           IF q = np THEN (IF np \in DOMAIN escc /\ ~HasDev("CCRestartOnReAdd") THEN escc[np] ELSE 16) ELSE escc[q]]
             /\ pmtDirty' = TRUE
             /\ nextPid' = IF auto THEN np + 1 ELSE nextPid
             /\ nauto' = IF auto THEN nauto + 1 ELSE nauto
             /\ bigs' = IF big THEN bigs \cup {np} ELSE bigs \ {np}
             /\ changedSince' = TRUE
             /\ Quiet(op, "nil")
  /\ UNCHANGED <<patCC, pmtCC, patVer, pmtVer, pmDirty, pcr, rtx, sinceAuto>>

\* an explicit PID below 0x20 (ISO 13818-1 table 2-3: PAT, CAT, TSDT, reserved; EN 300 468 table 1: NIT, SDT, EIT, ... - the Demuxer
\* reads those as PSI whatever a PMT says) or wider than 13 bits is refused and nothing changes
\* deviation "ReservedPidAccepted": it is taken like any other PID
AddReserved(p) ==
  /\ ~HasDev("ReservedPidAccepted")
  /\ nops < MaxOps /\ nops' = nops + 1
  /\ UNCHANGED <<streams, escc, pmtDirty, nextPid, changedSince, nauto, bigs>>
  /\ Quiet([op |-> "add", pid |-> p, st |-> 27, dk |-> "none"], "pidinvalid")
  /\ UNCHANGED <<patCC, pmtCC, patVer, pmtVer, pmDirty, pcr, rtx, sinceAuto>>

Remove(p) ==
  /\ nops < MaxOps /\ nops' = nops + 1
  /\ LET op == [op |-> "remove", pid |-> p] IN
     IF p \in SeqToSet(streams)
     THEN /\ streams' = SelectSeq(streams, LAMBDA q : q # p)
          /\ UNCHANGED escc                                    \* the counter of a removed stream is remembered
          /\ bigs' = bigs \ {p}
          /\ pmtDirty' = TRUE /\ changedSince' = TRUE
          /\ out' = <<>> /\ ret' = [n |-> 0, err |-> "nil"] /\ partial' = 0
          /\ hist' = Append(hist, op @@ [pred |-> Pred(<<>>, 0, "nil", 0)])
          /\ lastOut' = lastOut
          /\ UNCHANGED <<seenTables, seenPES, lastPmtVerOut>>
     ELSE /\ UNCHANGED <<streams, escc, pmtDirty, changedSince, bigs>>
          /\ Quiet(op, "pidnotfound")
  /\ UNCHANGED <<patCC, pmtCC, patVer, pmtVer, pmDirty, pcr, nextPid, rtx, nauto, sinceAuto>>

SetPCR(p) ==
  /\ nops < MaxOps /\ nops' = nops + 1
  /\ pcr' = p /\ pmtDirty' = TRUE /\ changedSince' = TRUE
  /\ Quiet([op |-> "setpcr", pid |-> p], "nil")
  /\ UNCHANGED <<streams, escc, patCC, pmtCC, patVer, pmtVer, pmDirty, nextPid, rtx, nauto, sinceAuto, bigs>>

\* ---- tables: generatePAT ; generatePMT ; two Writes
PCROk == pcr \in SeqToSet(streams)
PMTFits == bigs \cap SeqToSet(streams) = {}
Tables ==
  LET patVer1 == IF pmDirty THEN Inc(patVer, 31) ELSE patVer
      patCC1 == Inc(patCC, 15)
      pmtVer1 == IF pmtDirty THEN Inc(pmtVer, 31) ELSE pmtVer
      pmtCC1 == Inc(pmtCC, 15)
  IN IF PCROk /\ PMTFits
     THEN [ok |-> TRUE, err |-> "nil", patVer |-> patVer1, patCC |-> patCC1, pmtVer |-> pmtVer1, pmtCC |-> pmtCC1, pmDirty |-> FALSE, pmtDirty |-> FALSE,
           pkts |-> << [pid |-> PATPID, cc |-> patCC1, pl |-> TRUE, pusi |-> TRUE, af |-> 0, n |-> 184, kind |-> "pat", ver |-> patVer1],
                       [pid |-> PMTPID, cc |-> pmtCC1, pl |-> TRUE, pusi |-> TRUE, af |-> 0, n |-> 184, kind |-> "pmt", ver |-> pmtVer1] >>]
     ELSE LET e == IF PCROk THEN "other" ELSE "pcrinvalid" IN        \* invalid PCR PID is detected first; else the PMT does not fit one packet
          IF HasDev("PATccBurnOnFailedPMT")
          THEN [ok |-> FALSE, err |-> e, patVer |-> patVer1, patCC |-> patCC1, pmDirty |-> FALSE, pmtDirty |-> pmtDirty, pkts |-> <<>>,
                pmtVer |-> IF PCROk THEN pmtVer1 ELSE pmtVer, pmtCC |-> IF PCROk THEN pmtCC1 ELSE pmtCC]   \* historical: an oversized PMT also burnt PMT cc / version
          ELSE [ok |-> FALSE, err |-> e, patVer |-> patVer, patCC |-> patCC, pmtVer |-> pmtVer, pmtCC |-> pmtCC, pmDirty |-> pmDirty, pmtDirty |-> pmtDirty, pkts |-> <<>>]

ApplyTables(t) ==
  /\ patVer' = t.patVer /\ patCC' = t.patCC /\ pmtVer' = t.pmtVer /\ pmtCC' = t.pmtCC
  /\ pmDirty' = t.pmDirty /\ pmtDirty' = t.pmtDirty

WriteTables ==
  /\ nops < MaxOps /\ nops' = nops + 1
  /\ LET t == Tables IN
       /\ ApplyTables(t)
       /\ Emit([op |-> "tables"], t.pkts, 188 * Len(t.pkts), t.err, 0)
       /\ changedSince' = IF t.ok THEN FALSE ELSE changedSince
  /\ UNCHANGED <<streams, escc, pcr, nextPid, rtx, nauto, sinceAuto, bigs>>

\* ---- the packetisation loop of WriteData (muxer.go), as arithmetic.
\* Returns the abstract PES packets for a payload of len bytes with header class h and AF class a,
\* starting after continuity value cc.
RECURSIVE Rest(_, _, _)
Rest(p, cc, rem) ==                                  \* packets after the first: 184-byte chunks, last one stuffed
  IF rem = 0 THEN <<>>
  ELSE LET c == Inc(cc, 15) take == Min(184, rem) IN
       <<[pid |-> p, cc |-> c, pl |-> TRUE, pusi |-> FALSE, af |-> 184 - take, n |-> take, kind |-> "pes", ver |-> 0]>>
       \o Rest(p, c, rem - take)

PesPkts(p, cc, len, h, a) ==
  LET avail0 == 184 - AFTot(a)
      big == avail0 < HdrLen(h)                       \* AF leaves no room for the PES header
      \* as-is: the counter is consumed, the AF-only packet is never written, the AF is dropped
      cc0 == IF big /\ HasDev("CCBurnOnBigAF") THEN Inc(cc, 15) ELSE cc
      aeff == IF big THEN 0 ELSE AFTot(a)
      avail == 184 - aeff
      c1 == Inc(cc0, 15)
      data1 == Min(avail - HdrLen(h), len)
      n1 == HdrLen(h) + data1
      first == [pid |-> p, cc |-> c1, pl |-> TRUE, pusi |-> TRUE, af |-> 184 - n1, n |-> n1, kind |-> "pes", ver |-> 0]
      \* ideal for an oversize AF: an adaptation-only packet (counter not advanced) carries it
      afonly == IF big /\ ~HasDev("CCBurnOnBigAF")
                THEN <<[pid |-> p, cc |-> (IF cc = 16 THEN 15 ELSE cc), pl |-> FALSE, pusi |-> FALSE, af |-> 184, n |-> 0, kind |-> "pes", ver |-> 0]>>
                ELSE <<>>
  IN afonly \o <<first>> \o Rest(p, c1, len - data1)

WriteData(p, len, h, a) ==
  /\ nops < MaxOps /\ nops' = nops + 1
  /\ LET op == [op |-> "data", pid |-> p, len |-> len, hdr |-> h, af |-> a] IN
     IF p \notin SeqToSet(streams)
     THEN /\ Quiet(op, "pidnotfound")
          /\ UNCHANGED <<streams, escc, patCC, pmtCC, patVer, pmtVer, pmDirty, pmtDirty, pcr, nextPid, rtx, nauto, changedSince, sinceAuto, bigs>>
     ELSE LET force == AFRai(a) /\ p = pcr
              rtx1 == rtx + 1
              doT == force \/ rtx1 >= Period
              t == Tables
          IN IF doT /\ ~t.ok
             THEN /\ ApplyTables(t) /\ rtx' = rtx1
                  /\ Emit(op, <<>>, 0, t.err, 0)
                  /\ UNCHANGED <<streams, escc, pcr, nextPid, nauto, changedSince, sinceAuto, bigs>>
             ELSE IF AFTot(a) > 184
             \* muxer.go: the tables that were due have gone out; then the adaptation field turns out not to fit: error, nothing of the unit
             \* is written, no counter of the stream is consumed.  Deviation "HugeAFPartial": a partial packet reaches the writer first
             THEN LET tp == IF doT THEN t.pkts ELSE <<>> IN
                  /\ IF doT THEN ApplyTables(t) ELSE UNCHANGED <<patVer, patCC, pmtVer, pmtCC, pmDirty, pmtDirty>>
                  /\ rtx' = IF doT THEN 0 ELSE rtx1
                  /\ sinceAuto' = IF doT THEN 0 ELSE sinceAuto
                  /\ changedSince' = IF doT THEN FALSE ELSE changedSince
                  /\ Emit(op, tp, 188 * Len(tp), "other", IF HasDev("HugeAFPartial") THEN 189 ELSE 0)
                  /\ UNCHANGED <<streams, escc, pcr, nextPid, nauto, bigs>>
             ELSE LET tp == IF doT THEN t.pkts ELSE <<>>
                      pes == PesPkts(p, escc[p], len, h, a)
                      all == tp \o pes
                  IN /\ IF doT THEN ApplyTables(t) ELSE UNCHANGED <<patVer, patCC, pmtVer, pmtCC, pmDirty, pmtDirty>>
                     /\ rtx' = IF doT THEN 0 ELSE rtx1
                     /\ sinceAuto' = IF doT THEN 0 ELSE sinceAuto + 1
                     /\ changedSince' = IF doT THEN FALSE ELSE changedSince
                     /\ escc' = [escc EXCEPT ![p] = pes[Len(pes)].cc]
                     /\ Emit(op, all, 188 * Len(all), "nil", 0)
                     /\ UNCHANGED <<streams, pcr, nextPid, nauto, bigs>>

\* ---- WritePacket with a caller-built packet (PID 0x1ffe / null; outside the cc bookkeeping)
WritePacket(k) ==
  /\ nops < MaxOps /\ nops' = nops + 1
  /\ LET op == [op |-> "packet", kind |-> k]
         tooBig == k \in {"toobig", "toobigaf", "nopltoobig", "hugeaf", "hugeafonly", "hugestuff"}
         hdrBytes == IF k = "toobigaf" THEN 12 ELSE 4
     IN IF tooBig
        THEN Emit(op, <<>>, 0, "other", IF HasDev("HeaderBeforeFitCheck") THEN hdrBytes ELSE 0)
        ELSE Emit(op, <<[pid |-> (IF k = "null" THEN 8191 ELSE 8190), cc |-> 0, pl |-> (k # "pcr"), pusi |-> FALSE, af |-> (IF k = "pcr" THEN 184 ELSE 0),
                         n |-> (IF k = "pcr" THEN 0 ELSE 184), kind |-> "user", ver |-> 0]>>, 188, "nil", 0)
  /\ UNCHANGED <<streams, escc, patCC, pmtCC, patVer, pmtVer, pmDirty, pmtDirty, pcr, nextPid, rtx, nauto, changedSince, sinceAuto, bigs>>

Next ==
  \/ \E p \in PIDS \cup {0} \cup (IF HasDev("ReservedPidAccepted") THEN RESV ELSE {}), big \in BIGS : Add(p, big)
  \/ \E p \in RESV : AddReserved(p)
  \/ \E p \in PIDS : Remove(p)
  \/ \E p \in PIDS \cup {999} : SetPCR(p)
  \/ WriteTables
  \/ \E p \in PIDS \cup {999}, len \in LENS, h \in HDRS, a \in AFS : WriteData(p, len, h, a)
  \/ \E k \in PKTS : WritePacket(k)

Spec == Init /\ [][Next]_vars

\* ---------------- what C04 / C05 / C17 demand of the design
WellFormed(pk) == /\ pk.af + pk.n = 184
                  /\ (pk.pl <=> pk.n > 0)
                  /\ pk.cc \in 0..15
C04_Aligned == partial = 0 /\ ret.n = 188 * Len(out) /\ \A i \in DOMAIN out : WellFormed(out[i])
C04_PUSI == \A i \in DOMAIN out : out[i].kind = "pes" /\ out[i].pusi =>
               \A j \in DOMAIN out : (j < i /\ out[j].kind = "pes" /\ out[j].pid = out[i].pid) => ~out[j].pl
RECURSIVE CCOk(_, _)
CCOk(pkts, last) ==
  IF pkts = <<>> THEN TRUE
  ELSE LET h == Head(pkts)
           prev == IF h.pid \in DOMAIN last THEN last[h.pid] ELSE 99
           counted == h.pl /\ h.kind # "user"
           ok == (~counted) \/ prev = 99 \/ h.cc = (prev + 1) % 16
       IN ok /\ CCOk(Tail(pkts), [q \in DOMAIN last \cup {h.pid} |-> IF q = h.pid /\ counted THEN h.cc ELSE IF q \in DOMAIN last THEN last[q] ELSE 99])
C05_CC == [][CCOk(out', lastOut)]_vars
C17_TablesFirst == seenPES => seenTables
C17_Period == sinceAuto < Period
C17_RAP == [][ \A i \in DOMAIN hist' \ DOMAIN hist :
                 LET o == hist'[i] IN
                 (o.op = "data" /\ o.pred.err = "nil" /\ AFRai(o.af) /\ o.pid = pcr) =>
                    (Len(out') >= 2 /\ out'[1].kind = "pat" /\ out'[2].kind = "pmt") ]_vars
C17_Version == [][ (\E i \in DOMAIN out' : out'[i].kind = "pmt") =>
                     LET v == out'[CHOOSE i \in DOMAIN out' : out'[i].kind = "pmt"].ver
                     IN lastPmtVerOut = 99 \/ (IF changedSince THEN v = (lastPmtVerOut + 1) % 32 ELSE v = lastPmtVerOut) ]_vars
C17_AutoPid == \A i \in DOMAIN streams :
                  /\ streams[i] \in PIDS \/ (streams[i] >= 32 /\ streams[i] # 8191 /\ streams[i] # PMTPID)
                  /\ \A j \in DOMAIN streams : i # j => streams[i] # streams[j]
\* one emitted abstract state per reachable state; hist/out are observations
View == <<streams, escc, patCC, pmtCC, patVer, pmtVer, pmDirty, pmtDirty, pcr, nextPid, rtx, nauto, bigs, nops,
          lastOut, seenTables, seenPES, changedSince, lastPmtVerOut, sinceAuto, partial, ret>>
\* scenario export: one behaviour per explored transition (ACTION_CONSTRAINT)
ExportEdge == PrintT("SCN " \o ToJson([period |-> Period, ops |-> hist']))
=============================================================================
