------------------------------ MODULE Mon_C20 ------------------------------
(* C20 - Rewind restarts demuxing from a clean state.  Trace
   (harness/demux.go:runRewind): run 0 is a fresh Demuxer over the stream; every
   later run makes k calls (NextData / NextPacket / mixed), calls Rewind
   (optionally makes more calls and rewinds again) and then drains NextData:
     variant r k api again / rewind run n err / deliver run dg / derr run / eof run
   Rule: Rewind returns (0, nil); the deliveries after the (last) Rewind equal
   run 0's; errors of run 0 (none on a well-formed stream) equal too.
   Further histories record their own reference run (variant r = -2) just before
   the run they judge: "noseek-*" (a reader that cannot seek: a fresh Demuxer over
   the rest of the input; Rewind's result is not judged), "after-reader-error"
   (the reader failed once before the Rewind), "context-cancelled-before-rewind"
   (reference: a fresh Demuxer whose context is done), "data-then-packets"
   (NextData calls, Rewind, then NextPacket to the end; reference: a fresh
   Demuxer read with NextPacket). *)
EXTENDS MonBase
VARIABLES l, st
vars == <<l, st>>
St0(t, i) == [tr |-> t, base |-> <<>>, cur |-> <<>>, v |-> [r |-> -1, k |-> -1, api |-> "", again |-> -1], psize |-> 0, at |-> i, rewok |-> TRUE]
\* runs on a reader that cannot seek (api "noseek-..."): the reference (variant r = -2, recorded just before) is a fresh Demuxer over what the
\* reader had left at the Rewind; only the absence of residue is judged, not what Rewind returns
NoSeek(s) == s.v.api \in {"noseek-data", "noseek-packet", "noseek-mixed"}
Init == l = 1 /\ st = St0("none", 0)
V(kind, s, more) == [prop |-> "C20", kind |-> kind, trace |-> s.tr, at |-> s.at, api |-> s.v.api, auto |-> (s.psize = -1), twice |-> (s.v.again >= 0)] @@ more

Step(s, e, i) ==
  CASE e.ev = "reset" -> [St0(e.t, i) EXCEPT !.psize = e.psize]
    [] e.ev = "variant" -> [s EXCEPT !.v = [r |-> e.r, k |-> e.k, api |-> e.api, again |-> e.again], !.cur = <<>>]
    [] e.ev = "rewind" ->
         LET s0 == [s EXCEPT !.at = i, !.cur = <<>>] IN
         IF NoSeek(s) THEN RepIf(e.panic, [s0 EXCEPT !.rewok = (e.err = "nil")], V("rewind-result", s0, [n |-> e.n, err |-> "panic", k |-> s.v.k]))
         ELSE RepIf(e.n # 0 \/ e.err # "nil" \/ e.panic, s0, V("rewind-result", s0, [n |-> e.n, err |-> e.err, k |-> s.v.k]))
    [] e.ev = "deliver" -> [s EXCEPT !.cur = Append(s.cur, e.dg)]
    [] e.ev = "derr" -> [s EXCEPT !.cur = Append(s.cur, "error")]
    [] e.ev = "hang" -> Rep(s, V("no-end-of-stream", [s EXCEPT !.at = i], [k |-> s.v.k]))
    [] e.ev = "eof" ->
         LET s0 == [s EXCEPT !.at = i] IN
         IF s.v.r = 0 \/ s.v.r = -2 THEN [s0 EXCEPT !.base = s.cur]
         ELSE IF NoSeek(s) /\ ~s.rewok THEN s0                   \* what Rewind answers on such a reader is not C20's business
         ELSE RepIf(s.cur # s.base, s0, V("differs-from-fresh-demuxer", s0, [k |-> s.v.k, again |-> s.v.again, nfresh |-> Len(s.base), ngot |-> Len(s.cur)]))
    [] OTHER -> s

Next == /\ l <= Len(Trace)
        /\ l' = l + 1
        /\ st' = Step(st, Trace[l], l)
        /\ (l = Len(Trace)) => PrintT("DONE " \o ToString(l))
Spec == Init /\ [][Next]_vars
=============================================================================
