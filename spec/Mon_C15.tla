------------------------------ MODULE Mon_C15 ------------------------------
(* C15 - DVB date/time and BCD durations convert exactly.  Trace
   (harness/codec_dvb.go, through the verif-tagged exports of dvb.go):
     dec  b (5 bytes) err day sod y m d     parseDVBTime: day = floor(unix / 86400), sod = unix mod 86400, and the UTC calendar date
     enc  y m d h mi s b n err              writeDVBTime(time.Date(y, m, d, h, mi, s, UTC)): bytes, returned count
     dur  w (16|24) b err secs              parseDVBDurationMinutes / Seconds
     wdur w secs b n err                    writeDVBDurationMinutes / Seconds
   Expected values: MJD via the Annex C formulas (validated against the calendar
   walk for all days, DVBWalk.tla), digits digit-wise.  For raw patterns whose
   nibbles exceed 9 the digit-wise value hi*10+lo is still the definition. *)
EXTENDS MonBase, DVBTime
VARIABLES l, st
vars == <<l, st>>
Init == l = 1 /\ st = [tr |-> "none", at |-> 0]
V(kind, s, more) == [prop |-> "C15", kind |-> kind, trace |-> s.tr, at |-> s.at] @@ more
ValidBCD(b) == (b \div 16) <= 9 /\ (b % 16) <= 9

OnDec(s, e) ==
  LET mjd == e.b[1] * 256 + e.b[2]
      T == BCDVal(e.b[3]) * 3600 + BCDVal(e.b[4]) * 60 + BCDVal(e.b[5])
      wday == (mjd - 40587) + (T \div 86400)
      wsod == T % 86400
      ymd == DecodeMJD(mjd)
      plain == ValidBCD(e.b[3]) /\ ValidBCD(e.b[4]) /\ ValidBCD(e.b[5]) /\ T < 86400
      s1 == RepIf(e.err # "nil", s, V("decode-error", s, [b |-> e.b, err |-> e.err]))
      s2 == RepIf(e.err = "nil" /\ (e.day # wday \/ e.sod # wsod), s1, V("decode-instant", s, [b |-> e.b, day |-> e.day, sod |-> e.sod, wday |-> wday, wsod |-> wsod]))
  IN RepIf(e.err = "nil" /\ plain /\ <<e.y, e.m, e.d>> # ymd, s2, V("decode-date", s, [mjd |-> mjd, got |-> <<e.y, e.m, e.d>>, want |-> ymd]))

OnEnc(s, e) ==
  LET mjd == EncodeMJD(e.y, e.m, e.d)
      want == << mjd \div 256, mjd % 256, BCDByte(e.h), BCDByte(e.mi), BCDByte(e.s) >>
  IN RepIf(e.err # "nil" \/ e.b # want \/ e.n # 5, s, V("encode", s, [ymd |-> <<e.y, e.m, e.d>>, hms |-> <<e.h, e.mi, e.s>>, got |-> e.b, want |-> want, err |-> e.err]))

OnDur(s, e) ==
  LET want == IF e.w = 16 THEN BCDVal(e.b[1]) * 3600 + BCDVal(e.b[2]) * 60
              ELSE BCDVal(e.b[1]) * 3600 + BCDVal(e.b[2]) * 60 + BCDVal(e.b[3])
  IN RepIf(e.err # "nil" \/ e.secs # want, s, V("duration-decode", s, [w |-> e.w, b |-> e.b, got |-> e.secs, want |-> want]))

OnWDur(s, e) ==
  LET h == e.secs \div 3600  mi == (e.secs \div 60) % 60  sc == e.secs % 60
      want == IF e.w = 16 THEN << BCDByte(h), BCDByte(mi) >> ELSE << BCDByte(h), BCDByte(mi), BCDByte(sc) >>
  IN RepIf(e.err # "nil" \/ e.b # want, s, V("duration-encode", s, [w |-> e.w, secs |-> e.secs, got |-> e.b, want |-> want]))

Step(s, e, i) ==
  LET s0 == [s EXCEPT !.at = i] IN
  CASE e.ev = "reset" -> [tr |-> e.t, at |-> i]
    [] e.ev = "dec" -> OnDec(s0, e)
    [] e.ev = "enc" -> OnEnc(s0, e)
    [] e.ev = "dur" -> OnDur(s0, e)
    [] e.ev = "wdur" -> OnWDur(s0, e)
    [] e.ev = "panic" -> Rep(s0, V("panic", s0, [what |-> e.what]))
    [] OTHER -> s

Next == /\ l <= Len(Trace)
        /\ l' = l + 1
        /\ st' = Step(st, Trace[l], l)
        /\ (l = Len(Trace)) => PrintT("DONE " \o ToString(l))
Spec == Init /\ [][Next]_vars
=============================================================================
