----------------------------- MODULE Mon_Reader -----------------------------
(* Trace specification binding spec/Reader.tla to the real Demuxer (harness/rmodel.go).  Events:
     rreset t S kind npk extra auto sched     a fresh Demuxer over npk frames of S bytes plus `extra` bytes of a further frame, through a
                                              reader of the kind (seek | bufio | plain) with the short-read schedule sched
     rcall  r                                 one NextPacket call: r = index of the frame returned, -2 = ErrNoMorePackets, -3 = another error,
                                              -5 = the context's error
     rcancel                                  the harness cancels the context given to NewDemuxer (between two calls)
   Every rcall must be one of Reader!Call's results in the state reached so far (Dev = {}: exactly one); the state then advances as the
   specification says.  Nothing but the call results is logged: offsets and the packet buffer are inferred by the specification. *)
EXTENDS MonBase
RD == INSTANCE Reader WITH Sizes <- {}, Kinds <- {}, NPKS <- {}, EXTRAS <- {}, AUTOS <- {}, Short <- TRUE, Dev <- {},
                           c <- 0, s <- 0, out <- 0, calls <- 0
VARIABLES l, st
mvars == <<l, st>>
St0(t, i) == [tr |-> t, at |-> i, cf |-> [S |-> 188, kind |-> "seek", npk |-> 0, extra |-> 0, auto |-> FALSE], s |-> RD!S0, n |-> 0, sched |-> ""]
V(kind, x, more) == [prop |-> "READER", kind |-> kind, trace |-> x.tr, at |-> x.at, S |-> x.cf.S, reader |-> x.cf.kind, npk |-> x.cf.npk,
                     extra |-> x.cf.extra, auto |-> x.cf.auto, sched |-> x.sched] @@ more

OnCall(x, e) ==
  LET poss == RD!Call(x.cf, x.s)
      match == {y \in poss : y.r = e.r}
      nxt == IF match # {} THEN CHOOSE y \in match : TRUE ELSE CHOOSE y \in poss : TRUE
      x1 == [x EXCEPT !.s = nxt.s, !.n = x.n + 1]
  IN RepIf(match = {}, x1, V("call-result-not-allowed-by-reader-model", x, [call |-> x.n + 1, got |-> e.r, allowed |-> {y.r : y \in poss}]))

Step(x, e, i) ==
  LET x0 == [x EXCEPT !.at = i] IN
  CASE e.ev = "rreset" -> [St0(e.t, i) EXCEPT !.cf = [S |-> e.S, kind |-> e.kind, npk |-> e.npk, extra |-> e.extra, auto |-> e.auto], !.sched = e.sched]
    [] e.ev = "reset" -> St0(e.t, i)
    [] e.ev = "rcall" -> OnCall(x0, e)
    [] e.ev = "rcancel" -> [x0 EXCEPT !.s = RD!Cancelled(x.s)]
    [] OTHER -> x

Init == l = 1 /\ st = St0("none", 0)
Next == /\ l <= Len(Trace)
        /\ l' = l + 1
        /\ st' = Step(st, Trace[l], l)
        /\ (l = Len(Trace)) => PrintT("DONE " \o ToString(l))
Spec == Init /\ [][Next]_mvars
=============================================================================
