------------------------------ MODULE Mon_C17 ------------------------------
(* C17 - tables come first, recur every period and at RAPs, and are always
   current.  Same trace as C04 (harness/mux.go).  The monitor replays the
   configuration calls on its own abstract state (stream list, PCR PID, changed
   flag, last emitted versions, WriteData calls since the last automatic
   emission) and judges every PAT/PMT packet and every WriteData call.
   Weak readings (DESIGN.md 7): an additional emission is not flagged; calls
   that fail are not counted; the first emitted version is free. *)
EXTENDS MonBase, PSIBytes
VARIABLES l, st
vars == <<l, st>>

St0(t, period, i) ==
  [ tr |-> t, period |-> period, streams |-> <<>>, pcr |-> 0, changed |-> FALSE,
    lastPmt |-> -1, lastPat |-> -1, since |-> 0, seenTables |-> FALSE, op |-> "none", at |-> i ]
Init == l = 1 /\ st = St0("none", 40, 0)

V(kind, s, more) == [prop |-> "C17", kind |-> kind, trace |-> s.tr, at |-> s.at, op |-> s.op] @@ more
Pids(s) == {s.streams[k].pid : k \in DOMAIN s.streams}
Reserved(p) == p < 32 \/ p = NULLPID \/ p = PMTPID

OnAdd(s, e) ==
  IF e.err # "nil" THEN s
  ELSE LET p == e.apid
           bad == e.pid = 0 /\ (Reserved(p) \/ p \in Pids(s))
           s1 == [s EXCEPT !.streams = Append(s.streams, [pid |-> p, st |-> e.st, desc |-> e.desc]), !.changed = TRUE]
       IN RepIf(bad, s1, V("auto-pid", s, [apid |-> p, reserved |-> Reserved(p), taken |-> p \in Pids(s)]))

OnRemove(s, e) ==
  IF e.err # "nil" THEN s
  ELSE [s EXCEPT !.streams = SelectSeq(s.streams, LAMBDA x : x.pid # e.pid), !.changed = TRUE]

\* index (1..npk) of the first packet of the unit (any packet of pid - an adaptation-only packet carrying the random access
\* indicator belongs to the unit) among the npk packet events after i; npk+1 if none
FirstPES(i, npk, pid) ==
  LET c == {k \in 1..npk : Hdr(Trace[i+k].b).pid = pid}
  IN IF c = {} THEN npk + 1 ELSE CHOOSE k \in c : \A j \in c : k <= j

OnData(s, e, i) ==
  IF e.err # "nil"                              \* rejected / failed call: not counted either way - unless it did emit the tables before
  THEN LET hasBoth == (\E k \in 1..e.npk : Hdr(Trace[i+k].b).pid = PATPID) /\ (\E k \in 1..e.npk : Hdr(Trace[i+k].b).pid = PMTPID)
       IN [s EXCEPT !.since = IF hasBoth THEN 0 ELSE s.since]       \* failing (e.g. an adaptation field too large): an automatic emission all the same
  ELSE LET f == FirstPES(i, e.npk, e.pid)
           hasPat == \E k \in 1..(f-1) : Hdr(Trace[i+k].b).pid = PATPID
           hasPmt == \E k \in 1..(f-1) : Hdr(Trace[i+k].b).pid = PMTPID
           tables == hasPat /\ hasPmt
           why == IF ~s.seenTables THEN "first"
                  ELSE IF e.rai /\ e.pid = s.pcr THEN "rap"
                  ELSE IF s.since + 1 >= s.period THEN "period" ELSE "none"
           s1 == [s EXCEPT !.since = IF tables THEN 0 ELSE s.since + 1]
       IN RepIf(why # "none" /\ ~tables /\ f <= e.npk, s1,
                V("tables-missing", s, [why |-> why, since |-> s.since, period |-> s.period, pid |-> e.pid]))

OnCall(s, e, i) ==
  LET s0 == [s EXCEPT !.op = e.op, !.at = i] IN
  CASE e.op = "add" -> OnAdd(s0, e)
    [] e.op = "remove" -> OnRemove(s0, e)
    [] e.op = "setpcr" -> [s0 EXCEPT !.pcr = e.pid, !.changed = TRUE]
    [] e.op = "data" -> OnData(s0, e, i)
    [] OTHER -> s0

OnPMT(s, b, i) ==
  LET info == PSIInfo(b) IN
  IF ~info.ok THEN Rep(s, V("pmt-undecodable", s, [pkt |-> i]))
  ELSE LET m == PMTOf(b)
           v == m.hdr.ver
           verOK == s.lastPmt = -1 \/ (IF s.changed THEN v = (s.lastPmt + 1) % 32 ELSE v = s.lastPmt)
           contentOK == /\ m.hdr.tid = 2 /\ m.hdr.ext = 1 /\ m.hdr.cni = 1
                        /\ m.pcr = s.pcr /\ m.streams = s.streams
           s1 == [s EXCEPT !.lastPmt = v, !.changed = FALSE, !.seenTables = TRUE]
           s2 == RepIf(~contentOK, s1, V("pmt-content", s, [pkt |-> i, gotpcr |-> m.pcr, wantpcr |-> s.pcr,
                                            got |-> [k \in DOMAIN m.streams |-> m.streams[k].pid],
                                            want |-> [k \in DOMAIN s.streams |-> s.streams[k].pid]]))
       IN RepIf(~verOK, s2, V("pmt-version", s, [pkt |-> i, last |-> s.lastPmt, got |-> v, changed |-> s.changed]))

OnPAT(s, b, i) ==
  LET info == PSIInfo(b) IN
  IF ~info.ok THEN Rep(s, V("pat-undecodable", s, [pkt |-> i]))
  ELSE LET a == PATOf(b)
           v == a.hdr.ver
           verOK == s.lastPat = -1 \/ v = s.lastPat
           contentOK == a.hdr.tid = 0 /\ a.hdr.cni = 1 /\ a.progs = << [pn |-> 1, pid |-> PMTPID] >>
           s1 == [s EXCEPT !.lastPat = v]
           s2 == RepIf(~contentOK, s1, V("pat-content", s, [pkt |-> i, progs |-> a.progs]))
       IN RepIf(~verOK, s2, V("pat-version", s, [pkt |-> i, last |-> s.lastPat, got |-> v]))

OnPkt(s, e, i) ==
  LET b == e.b h == Hdr(b) IN
  IF s.op = "packet" \/ Len(b) # 188 THEN s
  ELSE IF h.pid = PMTPID THEN OnPMT(s, b, i)
  ELSE IF h.pid = PATPID THEN OnPAT(s, b, i)
  ELSE s

Step(s, e, i) ==
  CASE e.ev = "reset" -> St0(e.t, e.period, i)
    [] e.ev = "call" -> OnCall(s, e, i)
    [] e.ev = "pkt" -> OnPkt(s, e, i)
    [] OTHER -> s

Next == /\ l <= Len(Trace)
        /\ l' = l + 1
        /\ st' = Step(st, Trace[l], l)
        /\ (l = Len(Trace)) => PrintT("DONE " \o ToString(l))
Spec == Init /\ [][Next]_vars
=============================================================================
