SPECIFICATION Spec
CONSTANTS
  Shapes <- CodeShapes
  MaxFail = 12
  Dev = {}
INVARIANT Surfaced
PROPERTY Terminates
CHECK_DEADLOCK FALSE
