------------------------------ MODULE Mon_C10 ------------------------------
(* C10 - the section checksum is exactly CRC-32/MPEG-2.  Trace
   (harness/codec_crc.go, values from the verif-tagged exports of the real
   functions):
     tab  i v              tableCRC32[i]
     upd  s b v            updateCRC32(s, [b])
     updm s m v            updateCRC32(s, m) for a multi-byte piece m fed into register state s
     msg  m v inc          computeCRC32(m); inc[j] = updateCRC32(updateCRC32(init, m[:j]), m[j:]) for every split j
   Every value is recomputed bit by bit (CRC32.tla) and compared; the pieces
   must equal the one-pass value; message || checksum must have residue 0. *)
EXTENDS MonBase, CRC32
VARIABLES l, st
vars == <<l, st>>
Init == l = 1 /\ st = [tr |-> "none", at |-> 0]
V(kind, s, more) == [prop |-> "C10", kind |-> kind, trace |-> s.tr, at |-> s.at] @@ more

Step(s, e, i) ==
  LET s0 == [s EXCEPT !.at = i] IN
  CASE e.ev = "reset" -> [tr |-> e.t, at |-> i]
    [] e.ev = "tab" -> RepIf(TableEntry(e.i) # e.v, s0, V("table-entry", s0, [i |-> e.i, got |-> e.v, want |-> TableEntry(e.i)]))
    [] e.ev = "upd" -> RepIf(StepByte(e.s, e.b) # e.v, s0, V("single-step", s0, [s |-> e.s, b |-> e.b, got |-> e.v, want |-> StepByte(e.s, e.b)]))
    [] e.ev = "updm" -> RepIf(Update(e.s, e.m) # e.v, s0, V("piece-into-state", s0, [s |-> e.s, len |-> Len(e.m), got |-> e.v, want |-> Update(e.s, e.m)]))
    [] e.ev = "cmp" -> RepIf(Of(e.m) # e.v, s0, V("message", s0, [len |-> Len(e.m), got |-> e.v, want |-> Of(e.m)]))
    [] e.ev = "msg" ->
         LET want == Of(e.m)
             s1 == RepIf(want # e.v, s0, V("message", s0, [len |-> Len(e.m), got |-> e.v, want |-> want]))
             s2 == RepIf(\E j \in DOMAIN e.inc : e.inc[j] # e.v, s1, V("pieces-differ-from-one-pass", s0, [len |-> Len(e.m)]))
         IN RepIf(e.res # <<0, 0>>, s2, V("residue-not-zero", s0, [len |-> Len(e.m), res |-> e.res]))
    [] OTHER -> s

Next == /\ l <= Len(Trace)
        /\ l' = l + 1
        /\ st' = Step(st, Trace[l], l)
        /\ (l = Len(Trace)) => PrintT("DONE " \o ToString(l))
Spec == Init /\ [][Next]_vars
=============================================================================
