SPECIFICATION Spec
CONSTANTS
  PIDS = {0, 256}
  CCMOD = 16
  CCS = {0, 1, 15}
  PAYLOADS <- GenPayloads
  PATPIDS <- MCPATPIDS
  MaxSteps = 2
VIEW View
ACTION_CONSTRAINT ExportEdge
CHECK_DEADLOCK FALSE
