-------------------------------- MODULE Pool --------------------------------
(* Model of the process-wide bytesPool (pools.go) shared by independent
   demuxers, and of the ownership of what a call returns (data.go:parseData /
   isPSIComplete, packet_buffer.go:next, packet.go:parsePacket).

   N instances run concurrently.  One API call of an instance is the sequence
       Read      the next packet is read into the instance's reused read buffer
       Get       a pool item is taken (any free one, or a new one)
       Fill      the unit's payload is copied into the item
       Extract   the result is built: retained byte strings are copied out (ideal) -
                 or, under deviation "NoCopy", a retained slice still points into the item / the read buffer
       Put       the item goes back to the pool
       Return    the call returns the result to the caller, who keeps it
   interleaved freely with the other instances' steps.  Memory is modelled as
   cells owned by: a pool item, a read buffer, or a returned result.
   Invariants: an item has at most one holder; a held item is released before
   the call returns; no returned result ever shares a cell with a pool item or
   a read buffer (so later activity cannot change it): Frozen. *)
EXTENDS Integers, FiniteSets, TLC
CONSTANTS Inst, Items, MaxCalls, Dev
VARIABLES pc, holds, free, calls, results, cur, content, version
vars == <<pc, holds, free, calls, results, cur, content, version>>
HasDev(d) == d \in Dev
None == <<"none", 0>>
Private == <<"private", 0>>

\* content[c]: the current "value" of memory cell c (a pool item or a read buffer); it changes whenever the cell is reused
Cells == Items \cup {<<"rbuf", i>> : i \in Inst}
Init == /\ pc = [i \in Inst |-> "idle"] /\ holds = [i \in Inst |-> None] /\ free = Items /\ calls = [i \in Inst |-> 0]
        /\ results = {} /\ cur = [i \in Inst |-> [src |-> None, val |-> 0]]
        /\ content = [c \in Cells |-> 0] /\ version = 0

Read(i) == /\ pc[i] = "idle" /\ calls[i] < MaxCalls
           /\ version' = version + 1
           /\ content' = [content EXCEPT ![<<"rbuf", i>>] = version + 1]         \* the read buffer is overwritten
           /\ pc' = [pc EXCEPT ![i] = "read"] /\ calls' = [calls EXCEPT ![i] = @ + 1]
           /\ UNCHANGED <<holds, free, results, cur>>
Get(i) == /\ pc[i] = "read" /\ \E it \in free :
               /\ holds' = [holds EXCEPT ![i] = it] /\ free' = free \ {it}
          /\ pc' = [pc EXCEPT ![i] = "got"] /\ UNCHANGED <<calls, results, cur, content, version>>
Fill(i) == /\ pc[i] = "got"
           /\ content' = [content EXCEPT ![holds[i]] = content[<<"rbuf", i>>]]   \* payload copied into the pooled buffer
           /\ pc' = [pc EXCEPT ![i] = "filled"] /\ UNCHANGED <<holds, free, calls, results, cur, version>>
\* the result either owns a private copy of the bytes, or (NoCopy) keeps pointing at the pool item
Extract(i) == /\ pc[i] = "filled"
              /\ cur' = [cur EXCEPT ![i] = IF HasDev("NoCopy") THEN [src |-> holds[i], val |-> content[holds[i]]]
                                           ELSE [src |-> Private, val |-> content[holds[i]]]]
              /\ pc' = [pc EXCEPT ![i] = "extracted"] /\ UNCHANGED <<holds, free, calls, results, content, version>>
Put(i) == /\ pc[i] = "extracted"
          /\ free' = free \cup {holds[i]} /\ holds' = [holds EXCEPT ![i] = None]
          /\ pc' = [pc EXCEPT ![i] = "put"] /\ UNCHANGED <<calls, results, cur, content, version>>
Return(i) == /\ pc[i] = "put"
             /\ results' = results \cup {[inst |-> i, n |-> calls[i], src |-> cur[i].src, val |-> cur[i].val]}
             /\ pc' = [pc EXCEPT ![i] = "idle"] /\ UNCHANGED <<holds, free, calls, cur, content, version>>
Next == \E i \in Inst : Read(i) \/ Get(i) \/ Fill(i) \/ Extract(i) \/ Put(i) \/ Return(i)
Spec == Init /\ [][Next]_vars

SingleHolder == \A i, j \in Inst : i # j /\ holds[i] # None => holds[i] # holds[j]
ReleasedOnReturn == \A i \in Inst : pc[i] = "idle" => holds[i] = None
FreeConsistent == \A it \in Items : (it \in free) <=> (\A i \in Inst : holds[i] # it)
\* what the caller sees through a kept result never changes: it either owns its bytes or the cell still holds them
Frozen == \A r \in results : r.src = Private \/ content[r.src] = r.val
=============================================================================
