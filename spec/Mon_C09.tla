------------------------------ MODULE Mon_C09 ------------------------------
(* C09 - tables are delivered only with a valid CRC_32; muxed sections carry a
   valid one.  Trace (harness/codec_psi.go):
     corig k b orig nsec             a clean PSI unit (one TS packet), the content digests the real Demuxer delivers for it
     cvec  class k pos b tabs errs panic
          the unit after a fault (single-bit flip at every position, byte substitution, burst <= 32 bits, truncation,
          extension) and what the real Demuxer delivered for it (content digests), how many errors it returned
     mvec  ok pat pmt ...            payloads of the PAT / PMT packets the real Muxer emitted (any descriptor content)
   The reference decoder (RefFrom) is independent of the library: pointer_field, table_id, section_length, CRC-32/MPEG-2
   bit by bit over [table_id .. byte before CRC_32].
   Rules: a delivered table is always one of the clean unit's tables (never an altered one); whenever the reference
   decoder accepts the whole faulted unit (every section a known table with a valid CRC, as many as in the clean unit)
   all tables are delivered; otherwise an error or nothing is fine.  Every muxed PAT/PMT payload holds exactly one
   section whose section_length and CRC_32 the reference decoder accepts, followed by 0xFF stuffing. *)
EXTENDS MonBase, CRC32
VARIABLES l, st
vars == <<l, st>>
Init == l = 1 /\ st = [tr |-> "none", at |-> 0, orig |-> <<>>, nsec |-> 0]
V(kind, s, e, more) == [prop |-> "C09", kind |-> kind, trace |-> s.tr, at |-> s.at, class |-> e.class] @@ more
Six(tid) == tid \in {0, 2, 64, 65, 66, 70, 115} \cup (78..111)
Pad184(b) == IF Len(b) >= 184 THEN b ELSE b \o [i \in 1..(184 - Len(b)) |-> 255]

RECURSIVE RefFrom(_, _, _)
RefFrom(P, p, acc) ==
  IF p > Len(P) THEN [ok |-> TRUE, n |-> acc, stuffed |-> TRUE]
  ELSE IF P[p] = 255 THEN [ok |-> TRUE, n |-> acc, stuffed |-> \A i \in p..Len(P) : P[i] = 255]
  ELSE IF ~Six(P[p]) \/ p + 2 > Len(P) THEN [ok |-> FALSE, n |-> acc, stuffed |-> FALSE]
  ELSE LET slen == (P[p+1] % 16) * 256 + P[p+2]
           e == p + 2 + slen
       IN IF e > Len(P) \/ slen < 4 THEN [ok |-> FALSE, n |-> acc, stuffed |-> FALSE]
          ELSE IF Bytes4(Of(SubSeq(P, p, e - 4))) # SubSeq(P, e - 3, e) THEN [ok |-> FALSE, n |-> acc, stuffed |-> FALSE]
          ELSE RefFrom(P, e + 1, acc + 1)
Ref(b) == LET P == Pad184(b) IN IF Len(b) = 0 THEN [ok |-> FALSE, n |-> 0, stuffed |-> FALSE] ELSE RefFrom(P, 2 + P[1], 0)
SeqSet(q) == {q[i] : i \in DOMAIN q}

OnOrig(s, e, i) ==
  LET s0 == [s EXCEPT !.orig = e.orig, !.nsec = e.nsec]
      r == Ref(e.b)
  IN IF ~(r.ok /\ r.n = e.nsec) THEN Rep(s0, V("twin-unit-rejected-by-reference-decoder", s0, e, [n |-> r.n]))
     ELSE LET s1 == RepIf(Len(e.orig) # e.nsec \/ e.errs # 0 \/ e.panic, s0, V("clean-unit-not-delivered", s0, e, [k |-> e.k, got |-> Len(e.orig), nsec |-> e.nsec]))
          IN RepIf(Len(e.orig) = e.nsec /\ e.data # e.want, s1, V("clean-unit-delivered-altered", s0, e, [k |-> e.k, nsec |-> e.nsec]))

OnC(s, e) ==
  LET r == Ref(e.b)
      s1 == RepIf(e.panic, s, V("panic", s, e, [k |-> e.k, pos |-> e.pos]))
      altered == \E t \in SeqSet(e.tabs) : t \notin SeqSet(s.orig)
      s2 == RepIf(altered, s1, V("altered-table-delivered", s, e, [k |-> e.k, pos |-> e.pos, refok |-> r.ok]))
      \* a table is delivered only for a section the reference decoder accepts (known table, CRC_32 valid, big-endian): judged on one-section
      \* units, where "the sections accepted before the first bad one" says how many tables there can be at most (in a unit of several sections
      \* a fault may turn the first into an undecoded table which the library rightly steps over)
      s3 == RepIf(s.nsec = 1 /\ Len(e.tabs) > r.n, s2, V("table-delivered-without-a-valid-crc", s, e, [k |-> e.k, pos |-> e.pos, ntabs |-> Len(e.tabs), refn |-> r.n]))
  IN RepIf(r.ok /\ r.n = s.nsec /\ e.tabs # s.orig, s3, V("valid-unit-not-delivered", s, e, [k |-> e.k, pos |-> e.pos, ntabs |-> Len(e.tabs), errs |-> e.errs]))

OnM(s, e) ==
  IF ~e.ok THEN s                                           \* (emission failures are C13's / C04's business)
  ELSE LET rp == Ref(e.pat) rm == Ref(e.pmt)
           s1 == RepIf(~(rp.ok /\ rp.n = 1 /\ rp.stuffed), s, V("muxed-pat-section-length-or-crc", s, e, [n |-> rp.n]))
       IN RepIf(~(rm.ok /\ rm.n = 1 /\ rm.stuffed), s1, V("muxed-pmt-section-length-or-crc", s, e, [n |-> rm.n]))

Step(s, e, i) ==
  LET s0 == [s EXCEPT !.at = i] IN
  CASE e.ev = "reset" -> [tr |-> e.t, at |-> i, orig |-> <<>>, nsec |-> 0]
    [] e.ev = "corig" -> OnOrig(s0, e, i)
    [] e.ev = "cvec" -> OnC(s0, e)
    [] e.ev = "mvec" -> OnM(s0, e)
    [] e.ev = "mvecs" -> OnM(s0, e)        \* tables whose descriptor values have no reference encoding: structure only
    [] OTHER -> s

Next == /\ l <= Len(Trace)
        /\ l' = l + 1
        /\ st' = Step(st, Trace[l], l)
        /\ (l = Len(Trace)) => PrintT("DONE " \o ToString(l))
Spec == Init /\ [][Next]_vars
=============================================================================
