INIT Init
NEXT Next
INVARIANT Inv
CHECK_DEADLOCK FALSE
