---- MODULE Pk ----
EXTENDS Integers
VARIABLES
  \* @type: Int;
  rem,
  \* @type: Bool;
  first,
  \* @type: Int;
  af,
  \* @type: Int;
  hdr,
  \* @type: Int;
  lastSize,
  \* @type: Int;
  lastPayload
\* one WriteData loop iteration of the *ideal* packetiser: af = user AF bytes incl. length byte (0 = none), hdr = PES header bytes
Init == rem \in 1..100000 /\ first = TRUE /\ af \in 0..100 /\ hdr \in 6..60 /\ lastSize = 188 /\ lastPayload = 1
Step == /\ rem > 0
        /\ LET a == IF first THEN af ELSE 0
               h == IF first THEN hdr ELSE 0
               avail == 188 - 4 - a - h
               pl == IF rem < avail THEN rem ELSE avail
               stuff == avail - pl
           IN /\ avail >= 1
              /\ rem' = rem - pl
              /\ lastPayload' = pl
              /\ lastSize' = 4 + a + h + pl + stuff
        /\ first' = FALSE /\ UNCHANGED <<af, hdr>>
Next == Step
IndInit == rem \in 0..100000000 /\ first \in BOOLEAN /\ af \in 0..100 /\ hdr \in 6..60 /\ lastSize = 188 /\ lastPayload \in 1..184 /\ af + hdr <= 183
IndInv == rem >= 0 /\ lastSize = 188 /\ lastPayload >= 1 /\ lastPayload <= 184 /\ af \in 0..100 /\ hdr \in 6..60 /\ af + hdr <= 183
====
