------------------------------- MODULE Mux -------------------------------
(* Prototype of the muxer system model (scratch, for design-time measurements). *)
EXTENDS Integers, Sequences, FiniteSets, TLC
CONSTANTS PIDS,        \* explicit PIDs a caller may use, e.g. {256, 257}
          Period,      \* tables retransmit period
          MaxOps,      \* history bound
          Dev          \* set of deviation names present (AsIs) ; {} = ideal
VARIABLES streams,     \* sequence of PIDs in insertion order
          escc,        \* pid -> 0..16 (16 = fresh)
          patCC, pmtCC, patVer, pmtVer, pmDirty, pmtDirty, pcr, nextPid, rtx,
          out,         \* packets emitted by the last call: <<[pid, cc, pl, pusi, kind, ver]>>
          ret,         \* [n |-> bytes, err |-> string]
          partial,     \* bytes emitted outside whole packets by the last call
          nops,
          \* ghost / history
          lastOut,     \* pid -> last cc seen on payload packets in the whole output
          seenTables, seenPES, changedSince, lastPmtVerOut
vars == <<streams, escc, patCC, pmtCC, patVer, pmtVer, pmDirty, pmtDirty, pcr, nextPid, rtx, out, ret, partial, nops, lastOut, seenTables, seenPES, changedSince, lastPmtVerOut>>

PATPID == 0
PMTPID == 4096
StartPID == 256
Inc(c, wrap) == IF c + 1 > wrap THEN 0 ELSE c + 1
SeqToSet(s) == {s[i] : i \in DOMAIN s}
Has(d) == d \in Dev

Init ==
  /\ streams = <<>> /\ escc = [p \in {} |-> 0]
  /\ patCC = 16 /\ pmtCC = 16 /\ patVer = 32 /\ pmtVer = 32
  /\ pmDirty = TRUE /\ pmtDirty = FALSE /\ pcr = 0
  /\ nextPid = IF Has("AutoPidFromZero") THEN 0 ELSE StartPID
  /\ rtx = Period
  /\ out = <<>> /\ ret = [n |-> 0, err |-> "nil"] /\ partial = 0 /\ nops = 0
  /\ lastOut = [p \in {} |-> 0] /\ seenTables = FALSE /\ seenPES = FALSE /\ changedSince = TRUE /\ lastPmtVerOut = 99

\* ---- bookkeeping of what reaches the writer
Emit(pkts, n, e, part) ==
  /\ out' = pkts /\ ret' = [n |-> n, err |-> e] /\ partial' = part
  /\ lastOut' = [p \in DOMAIN lastOut \cup {pkts[i].pid : i \in DOMAIN pkts} |->
                   LET idx == {i \in DOMAIN pkts : pkts[i].pid = p /\ pkts[i].pl}
                   IN IF idx = {} THEN lastOut[p] ELSE pkts[CHOOSE i \in idx : \A j \in idx : j <= i].cc]
  /\ seenTables' = (seenTables \/ \E i \in DOMAIN pkts : pkts[i].kind = "pat")
  /\ seenPES' = (seenPES \/ \E i \in DOMAIN pkts : pkts[i].kind = "pes")
  /\ lastPmtVerOut' = LET idx == {i \in DOMAIN pkts : pkts[i].kind = "pmt"}
                      IN IF idx = {} THEN lastPmtVerOut ELSE pkts[CHOOSE i \in idx : \A j \in idx : j <= i].ver
  /\ changedSince' = IF \E i \in DOMAIN pkts : pkts[i].kind = "pmt" THEN FALSE ELSE changedSince

\* ---- configuration calls
Add(p) ==
  /\ nops < MaxOps /\ nops' = nops + 1
  /\ LET auto == (p = 0)
         free == CHOOSE q \in nextPid..(nextPid + Len(streams) + 1) : q \notin SeqToSet(streams) /\ \A r \in nextPid..(q-1) : r \in SeqToSet(streams)
         np == IF auto THEN (IF Has("AutoPidFromZero") THEN nextPid ELSE free) ELSE p
         dup == (~auto) /\ np \in SeqToSet(streams)
     IN IF dup
        THEN /\ UNCHANGED <<streams, escc, pmtDirty, nextPid, changedSince>>
             /\ out' = <<>> /\ ret' = [n |-> 0, err |-> "exists"] /\ partial' = 0
             /\ UNCHANGED <<lastOut, seenTables, seenPES, lastPmtVerOut>>
        ELSE /\ streams' = Append(streams, np)
             /\ escc' = [q \in DOMAIN escc \cup {np} |-> IF q = np THEN 16 ELSE escc[q]]
             /\ pmtDirty' = TRUE
             /\ nextPid' = IF auto THEN np + 1 ELSE nextPid
             /\ out' = <<>> /\ ret' = [n |-> 0, err |-> "nil"] /\ partial' = 0
             /\ changedSince' = TRUE
             /\ UNCHANGED <<lastOut, seenTables, seenPES, lastPmtVerOut>>
  /\ UNCHANGED <<patCC, pmtCC, patVer, pmtVer, pmDirty, pcr, rtx>>

Remove(p) ==
  /\ nops < MaxOps /\ nops' = nops + 1
  /\ IF p \in SeqToSet(streams)
     THEN /\ streams' = SelectSeq(streams, LAMBDA q : q # p)
          /\ escc' = [q \in DOMAIN escc \ {p} |-> escc[q]]
          /\ pmtDirty' = TRUE /\ changedSince' = TRUE
          /\ ret' = [n |-> 0, err |-> "nil"]
          /\ lastOut' = [q \in DOMAIN lastOut \ {p} |-> lastOut[q]]   \* counter may restart after re-add
     ELSE /\ UNCHANGED <<streams, escc, pmtDirty, changedSince, lastOut>>
          /\ ret' = [n |-> 0, err |-> "notfound"]
  /\ out' = <<>> /\ partial' = 0
  /\ UNCHANGED <<patCC, pmtCC, patVer, pmtVer, pmDirty, pcr, nextPid, rtx, seenTables, seenPES, lastPmtVerOut>>

SetPCR(p) ==
  /\ nops < MaxOps /\ nops' = nops + 1
  /\ pcr' = p /\ pmtDirty' = TRUE /\ changedSince' = TRUE
  /\ out' = <<>> /\ ret' = [n |-> 0, err |-> "nil"] /\ partial' = 0
  /\ UNCHANGED <<streams, escc, patCC, pmtCC, patVer, pmtVer, pmDirty, nextPid, rtx, lastOut, seenTables, seenPES, lastPmtVerOut>>

\* ---- tables.  Returns the new counters and the packets (or failure)
PCROk == pcr \in SeqToSet(streams)
\* result of generatePAT;generatePMT;flush as a record
Tables ==
  LET patVer1 == IF pmDirty THEN Inc(patVer, 31) ELSE patVer
      patCC1 == Inc(patCC, 15)
      pmtVer1 == IF pmtDirty THEN Inc(pmtVer, 31) ELSE pmtVer
      pmtCC1 == Inc(pmtCC, 15)
  IN IF PCROk
     THEN [ok |-> TRUE, patVer |-> patVer1, patCC |-> patCC1, pmtVer |-> pmtVer1, pmtCC |-> pmtCC1, pmDirty |-> FALSE, pmtDirty |-> FALSE,
           pkts |-> << [pid |-> PATPID, cc |-> patCC1, pl |-> TRUE, pusi |-> TRUE, kind |-> "pat", ver |-> patVer1],
                       [pid |-> PMTPID, cc |-> pmtCC1, pl |-> TRUE, pusi |-> TRUE, kind |-> "pmt", ver |-> pmtVer1] >>]
     ELSE IF Has("PATccBurnOnFailedPMT")
          THEN [ok |-> FALSE, patVer |-> patVer1, patCC |-> patCC1, pmtVer |-> pmtVer, pmtCC |-> pmtCC, pmDirty |-> FALSE, pmtDirty |-> pmtDirty, pkts |-> <<>>]
          ELSE [ok |-> FALSE, patVer |-> patVer, patCC |-> patCC, pmtVer |-> pmtVer, pmtCC |-> pmtCC, pmDirty |-> pmDirty, pmtDirty |-> pmtDirty, pkts |-> <<>>]

ApplyTables(t) ==
  /\ patVer' = t.patVer /\ patCC' = t.patCC /\ pmtVer' = t.pmtVer /\ pmtCC' = t.pmtCC
  /\ pmDirty' = t.pmDirty /\ pmtDirty' = t.pmtDirty

WriteTables ==
  /\ nops < MaxOps /\ nops' = nops + 1
  /\ LET t == Tables IN
       /\ ApplyTables(t)
       /\ Emit(t.pkts, 188 * Len(t.pkts), IF t.ok THEN "nil" ELSE "pcrinvalid", 0)
  /\ UNCHANGED <<streams, escc, pcr, nextPid, rtx>>

\* ---- WriteData. len = number of payload packets (1..3), bigAF = first-packet AF leaves no room for the PES header
RECURSIVE PesPkts(_, _, _, _)
PesPkts(p, cc, k, first) ==
  IF k = 0 THEN <<>>
  ELSE LET c == Inc(cc, 15) IN
       <<[pid |-> p, cc |-> c, pl |-> TRUE, pusi |-> first, kind |-> "pes", ver |-> 0]>> \o PesPkts(p, c, k - 1, FALSE)

WriteData(p, k, rai, bigAF) ==
  /\ nops < MaxOps /\ nops' = nops + 1
  /\ IF p \notin DOMAIN escc
     THEN /\ out' = <<>> /\ ret' = [n |-> 0, err |-> "notfound"] /\ partial' = 0
          /\ UNCHANGED <<streams, escc, patCC, pmtCC, patVer, pmtVer, pmDirty, pmtDirty, pcr, nextPid, rtx, lastOut, seenTables, seenPES, changedSince, lastPmtVerOut>>
     ELSE LET force == rai /\ p = pcr
              rtx1 == rtx + 1
              doT == force \/ rtx1 >= Period
              t == Tables
          IN IF doT /\ ~t.ok
             THEN /\ ApplyTables(t) /\ rtx' = rtx1
                  /\ Emit(<<>>, 0, "pcrinvalid", 0)
                  /\ UNCHANGED <<streams, escc, pcr, nextPid>>
             ELSE LET tp == IF doT THEN t.pkts ELSE <<>>
                      cc0 == IF bigAF /\ Has("CCBurnOnBigAF") THEN Inc(escc[p], 15) ELSE escc[p]
                      pes == PesPkts(p, cc0, k, TRUE)
                      all == tp \o pes
                  IN /\ IF doT THEN ApplyTables(t) ELSE UNCHANGED <<patVer, patCC, pmtVer, pmtCC, pmDirty, pmtDirty>>
                     /\ rtx' = IF doT THEN 0 ELSE rtx1
                     /\ escc' = [escc EXCEPT ![p] = pes[Len(pes)].cc]
                     /\ Emit(all, 188 * Len(all), "nil", 0)
                     /\ UNCHANGED <<streams, pcr, nextPid>>

WritePacketTooBig ==
  /\ nops < MaxOps /\ nops' = nops + 1
  /\ out' = <<>> /\ ret' = [n |-> 0, err |-> "toobig"]
  /\ partial' = IF Has("HeaderBeforeFitCheck") THEN 4 ELSE 0
  /\ UNCHANGED <<streams, escc, patCC, pmtCC, patVer, pmtVer, pmDirty, pmtDirty, pcr, nextPid, rtx, lastOut, seenTables, seenPES, changedSince, lastPmtVerOut>>

Next ==
  \/ \E p \in PIDS \cup {0} : Add(p)
  \/ \E p \in PIDS : Remove(p)
  \/ \E p \in PIDS \cup {999} : SetPCR(p)
  \/ WriteTables
  \/ \E p \in PIDS, k \in 1..2, rai \in BOOLEAN, big \in BOOLEAN : WriteData(p, k, rai, big)
  \/ WritePacketTooBig

Spec == Init /\ [][Next]_vars

\* ---------------- properties (what C04 / C05 / C17 demand of the model)
C04_Aligned == partial = 0 /\ ret.n = 188 * Len(out) /\ (ret.err # "nil" => out = <<>>)
\* C05: within one call and across calls, payload packets of a PID advance by one
RECURSIVE CCOk(_, _)
CCOk(pkts, last) ==
  IF pkts = <<>> THEN TRUE
  ELSE LET h == Head(pkts)
           prev == IF h.pid \in DOMAIN last THEN last[h.pid] ELSE 99
           ok == (~h.pl) \/ prev = 99 \/ h.cc = (prev + 1) % 16
       IN ok /\ CCOk(Tail(pkts), [q \in DOMAIN last \cup {h.pid} |-> IF q = h.pid /\ h.pl THEN h.cc ELSE last[q]])
C05_CC == [][CCOk(out', lastOut)]_vars
C17_TablesFirst == seenPES => seenTables
C17_Period == rtx < Period \/ ~seenPES \/ ret.err # "nil" \/ Len(out) = 0
C17_Version == [][ (\E i \in DOMAIN out' : out'[i].kind = "pmt") =>
                     LET v == out'[CHOOSE i \in DOMAIN out' : out'[i].kind = "pmt"].ver
                     IN lastPmtVerOut = 99 \/ (IF changedSince THEN v = (lastPmtVerOut + 1) % 32 ELSE v = lastPmtVerOut) ]_vars
C17_AutoPid == \A i \in DOMAIN streams : streams[i] >= 32 /\ streams[i] # 8191 /\ \A j \in DOMAIN streams : i # j => streams[i] # streams[j]
View == <<streams, escc, patCC, pmtCC, patVer, pmtVer, pmDirty, pmtDirty, pcr, nextPid, rtx, nops, lastOut, seenTables, seenPES, changedSince, lastPmtVerOut, partial, ret, out>>
=============================================================================
