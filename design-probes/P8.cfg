INIT Init
NEXT Next
VIEW View
ACTION_CONSTRAINT Edge
CHECK_DEADLOCK FALSE
