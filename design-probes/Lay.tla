------------------------------- MODULE Lay -------------------------------
(* Prototype: generic bit-layout interpreter + TS header/adaptation field layout; measure vectors/s *)
EXTENDS Integers, Sequences, SequencesExt, FiniteSets, TLC, Json
\* ---- bits
RECURSIVE ToBitsR(_, _)
ToBitsR(v, w) == IF w = 0 THEN <<>> ELSE Append(ToBitsR(v \div 2, w - 1), v % 2)
ToBits(v, w) == ToBitsR(v, w)                      \* MSB first, v < 2^31
Ones(w) == [i \in 1..w |-> 1]
BytesToBits(bs) == FoldLeft(LAMBDA acc, b : acc \o ToBits(b, 8), <<>>, bs)
BitsVal(bits) == FoldLeft(LAMBDA acc, b : acc * 2 + b, 0, bits)
BitsToBytes(bits) == [i \in 1..(Len(bits) \div 8) |-> BitsVal(SubSeq(bits, 8 * (i - 1) + 1, 8 * i))]
\* wide values are byte sequences (big endian); take the low w bits
WideBits(bs, w) == LET all == BytesToBits(bs) IN SubSeq(all, Len(all) - w + 1, Len(all))
B(x) == IF x THEN 1 ELSE 0
\* ---- layout items: [k |-> "u", v |-> int, w |-> width] | [k |-> "wide", v |-> bytes, w] | [k |-> "ones", w] | [k |-> "bytes", v |-> bytes]
ItemBits(it) == CASE it.k = "u" -> ToBits(it.v, it.w)
                  [] it.k = "wide" -> WideBits(it.v, it.w)
                  [] it.k = "ones" -> Ones(it.w)
                  [] it.k = "bytes" -> BytesToBits(it.v)
Encode(items) == BitsToBytes(FoldLeft(LAMBDA acc, it : acc \o ItemBits(it), <<>>, items))
U(v, w) == [k |-> "u", v |-> v, w |-> w]
W(v, w) == [k |-> "wide", v |-> v, w |-> w]
O(w) == [k |-> "ones", w |-> w]
Y(v) == [k |-> "bytes", v |-> v]
\* ---- ISO 13818-1 2.4.3.2 header, 2.4.3.4 adaptation field (PCR, OPCR, splice, private data; extension omitted in the prototype)
PCRItems(pcr) == << W(pcr.base, 33), O(6), U(pcr.ext, 9) >>
AFBody(a) == << U(B(a.disc),1), U(B(a.rai),1), U(B(a.espi),1), U(B(a.hasPCR),1), U(B(a.hasOPCR),1), U(B(a.hasSplice),1), U(B(a.hasPriv),1), U(0,1) >>
             \o (IF a.hasPCR THEN PCRItems(a.pcr) ELSE <<>>)
             \o (IF a.hasOPCR THEN PCRItems(a.opcr) ELSE <<>>)
             \o (IF a.hasSplice THEN << U(a.splice, 8) >> ELSE <<>>)
             \o (IF a.hasPriv THEN << U(Len(a.priv), 8), Y(a.priv) >> ELSE <<>>)
AFBytes(a, total) ==   \* total = bytes available for the whole AF incl. length byte
  IF total = 1 THEN <<0>>
  ELSE LET body == Encode(AFBody(a)) IN <<total - 1>> \o body \o [i \in 1..(total - 1 - Len(body)) |-> 255]
Header(h) == Encode(<< U(71,8), U(B(h.tei),1), U(B(h.pusi),1), U(B(h.prio),1), U(h.pid,13), U(h.scr,2), U(B(h.hasAF),1), U(B(h.hasPL),1), U(h.cc,4) >>)
Packet(h, a, payload) == Header(h) \o (IF h.hasAF THEN AFBytes(a, 184 - Len(payload)) ELSE <<>>) \o payload

\* ---- vector enumeration
PIDVals == {0, 1, 16, 256, 4096, 8190, 8191} \cup {2^k : k \in 0..12}
PCRVals == { [base |-> <<0,0,0,0,0>>, ext |-> 0], [base |-> <<1,255,255,255,255>>, ext |-> 511], [base |-> <<1,0,0,0,0>>, ext |-> 256], [base |-> <<0,0,0,0,1>>, ext |-> 1] }
VARIABLES v, done
Vec == [h : [tei : BOOLEAN, pusi : BOOLEAN, prio : BOOLEAN, pid : PIDVals, scr : 0..3, hasAF : {TRUE}, hasPL : {TRUE}, cc : {0, 9, 15}],
        a : [disc : BOOLEAN, rai : {TRUE}, espi : {FALSE}, hasPCR : BOOLEAN, hasOPCR : BOOLEAN, hasSplice : BOOLEAN, hasPriv : BOOLEAN,
             pcr : PCRVals, opcr : {[base |-> <<0,1,2,3,4>>, ext |-> 5]}, splice : {0, 255}, priv : {<<>>, <<1,2,3>>}],
        pl : {10, 100}]
Init == v \in Vec /\ done = FALSE
Next == done = FALSE /\ done' = TRUE /\ UNCHANGED v
Bytes(x) == Packet(x.h, x.a, [i \in 1..x.pl |-> i % 256])
Inv == Len(Bytes(v)) = 188
Emit == PrintT("VEC " \o ToJson([v |-> v, b |-> Bytes(v)]))
=============================================================================
