---- MODULE P8 ----
EXTENDS Integers, Sequences, TLC, Json
VARIABLE hist, cc, n
Ops == {"a", "b"}
Init == hist = <<>> /\ cc = 0 /\ n = 0
Next == /\ n < 3
        /\ \E o \in Ops : /\ hist' = Append(hist, [op |-> o, cc |-> cc])
                          /\ cc' = IF o = "a" THEN (cc + 1) % 2 ELSE cc
                          /\ n' = n + 1
View == <<cc, n>>
Edge == PrintT("EDGE " \o ToJson(hist'))
====
