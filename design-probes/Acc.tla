------------------------------- MODULE Acc -------------------------------
(* Prototype: one PES PID, clean stream generated on the fly, fault injected per packet, clean and faulted accumulators in lock-step *)
EXTENDS Integers, Sequences, FiniteSets, TLC
CONSTANTS MaxPkts, MaxUnitLen, Faults, Dev
VARIABLES n, cc, posInUnit, unit, qc, dc, qf, df, hit, gapBefore, lostRun
vars == <<n, cc, posInUnit, unit, qc, dc, qf, df, hit, gapBefore, lostRun>>
Has(d) == d \in Dev
Init == n = 0 /\ cc \in {0, 14} /\ posInUnit = 0 /\ unit = 0 /\ qc = <<>> /\ dc = <<>> /\ qf = <<>> /\ df = <<>> /\ hit = {} /\ gapBefore = {} /\ lostRun = 0

Last(q) == q[Len(q)]
Disc(q, p) == Len(q) > 0 /\ p.cc # (Last(q).cc + 1) % 16
Same(q, p) == Len(q) > 0 /\ p.cc = Last(q).cc
\* deliverable group: starts with PUSI (PES start code present); otherwise parseData yields nothing
Deliverable(g) == Len(g) > 0 /\ g[1].pusi
Ids(g) == [i \in DOMAIN g |-> g[i].id]
\* returns <<q', delivered'>>
Add(q, d, p) ==
  LET dupFirst == ~Has("DiscBeforeDup")
      q0 == IF dupFirst /\ Same(q, p) THEN q ELSE (IF Disc(q, p) THEN <<>> ELSE q)
      isDup == IF dupFirst THEN Same(q, p) ELSE Same(q0, p)
  IN IF isDup THEN <<q0, d>>
     ELSE IF p.pusi
          THEN << <<p>>, IF Deliverable(q0) THEN Append(d, Ids(q0)) ELSE d >>
          ELSE << Append(q0, p), d >>
Drain(q, d) == IF Deliverable(q) THEN Append(d, Ids(q)) ELSE d

NextPkt ==
  /\ n < MaxPkts
  /\ \E start \in BOOLEAN, f \in Faults :
       /\ (posInUnit = 0 => start) /\ (posInUnit >= MaxUnitLen => start) /\ (n = 0 => start)
       /\ (f = "drop" => lostRun < 15)
       /\ LET c == (cc + 1) % 16
              u == IF start THEN unit + 1 ELSE unit
              p == [cc |-> c, pusi |-> start, id |-> <<u, IF start THEN 1 ELSE posInUnit + 1>>]
              rc == Add(qc, dc, p)
              rf1 == IF f = "drop" THEN <<qf, df>> ELSE Add(qf, df, p)
              rf == IF f = "dup" THEN Add(rf1[1], rf1[2], p) ELSE rf1
          IN /\ cc' = c /\ unit' = u /\ posInUnit' = (IF start THEN 1 ELSE posInUnit + 1)
             /\ qc' = rc[1] /\ dc' = rc[2] /\ qf' = rf[1] /\ df' = rf[2]
             /\ hit' = IF f = "drop" THEN hit \cup {u} ELSE hit
             /\ gapBefore' = IF f = "drop" THEN gapBefore \cup {IF start THEN unit ELSE u, u - 1} ELSE gapBefore
             /\ lostRun' = IF f = "drop" THEN lostRun + 1 ELSE 0
             /\ n' = n + 1
Next == NextPkt
Spec == Init /\ [][Next]_vars

Range(s) == {s[i] : i \in DOMAIN s}
FinalC == Drain(qc, dc)
FinalF == Drain(qf, df)
\* C06 (evaluated as if the stream ended here, with a later payload packet present only if lostRun = 0)
DupHarmless == (hit = {}) => FinalF = FinalC
UnitOf(g) == g[1][1]
LossSafe == (lostRun = 0) =>
              /\ Range(FinalF) \subseteq Range(FinalC)                              \* never a splice / foreign unit
              /\ \A g \in Range(FinalC) \ Range(FinalF) : UnitOf(g) \in hit \cup gapBefore
=============================================================================
