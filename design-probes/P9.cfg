INIT Init
NEXT Next
POSTCONDITION Consumed
CHECK_DEADLOCK FALSE
