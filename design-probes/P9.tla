---- MODULE P9 ----
EXTENDS Integers, Sequences, TLC, Json
Trace == ndJsonDeserialize("/tmp/probe/m.ndjson") \* sample trace: see README
VARIABLES l, last, ctx, tr, nviol
vars == <<l, last, ctx, tr, nviol>>
NoCC == 99
Init == l = 1 /\ last = [p \in {} |-> 0] /\ ctx = "none" /\ tr = 0 /\ nviol = 0
Ev == Trace[l]
Report(v) == PrintT("VIOL " \o ToJson(v))
Reset == /\ Ev.ev = "reset" /\ last' = [p \in {} |-> 0] /\ ctx' = "none" /\ tr' = Ev.trace /\ UNCHANGED nviol
Fail  == /\ Ev.ev = "callfail" /\ ctx' = Ev.op \o ":" \o Ev.why /\ UNCHANGED <<last, tr, nviol>>
Pkt   == /\ Ev.ev = "pkt"
         /\ LET prev == IF Ev.pid \in DOMAIN last THEN last[Ev.pid] ELSE NoCC
                ok == prev = NoCC \/ Ev.cc = (prev + 1) % 16
            IN /\ (~ok) => Report([prop |-> "C05", kind |-> "cc-gap", trace |-> tr, at |-> l, pid |-> Ev.pid, prev |-> prev, got |-> Ev.cc, after |-> ctx])
               /\ nviol' = IF ok THEN nviol ELSE nviol + 1
               /\ last' = [p \in DOMAIN last \cup {Ev.pid} |-> IF p = Ev.pid THEN Ev.cc ELSE last[p]]
               /\ ctx' = "none" /\ UNCHANGED tr
Next == l <= Len(Trace) /\ l' = l + 1 /\ (Reset \/ Fail \/ Pkt)
Consumed == TLCGet("stats").diameter - 1 = Len(Trace)
====
