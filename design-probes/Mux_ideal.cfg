SPECIFICATION Spec
CONSTANTS PIDS = {256, 257}
  Period = 2
  MaxOps = 5
  Dev = {}
INVARIANTS C04_Aligned C17_TablesFirst C17_AutoPid
PROPERTIES C05_CC C17_Version
CHECK_DEADLOCK FALSE
