---- MODULE P4 ----
EXTENDS Integers, Sequences, SequencesExt, Bitwise, TLC
PolyHi == 1217
PolyLo == 7607
StepBit(c, bit) == LET hi == c[1] lo == c[2]
                       top == ((hi \div 32768) + bit) % 2
                       nhi == ((hi % 32768) * 2) + (lo \div 32768)
                       nlo == (lo % 32768) * 2
                   IN IF top = 1 THEN << nhi ^^ PolyHi, nlo ^^ PolyLo >> ELSE << nhi, nlo >>
Bits8(b) == << (b \div 128) % 2, (b \div 64) % 2, (b \div 32) % 2, (b \div 16) % 2, (b \div 8) % 2, (b \div 4) % 2, (b \div 2) % 2, b % 2 >>
StepByte(c, b) == FoldLeft(StepBit, c, Bits8(b))
CRC(c, bs) == FoldLeft(StepByte, c, bs)
Init32 == <<65535, 65535>>
ASSUME PrintT(<<"crc", CRC(Init32, <<49,50,51,52,53,54,55,56,57>>)>>)  \* expect 0x0376E6E7 = <<886, 59111>>
VARIABLE n
Msg(k) == [i \in 1..64 |-> (i * 37 + k) % 256]
Init == n = 0
Next == n < 2000 /\ n' = n + 1
Inv == CRC(Init32, Msg(n))[1] >= 0
====
