SPECIFICATION Spec
CONSTANTS MaxPkts = 7
  MaxUnitLen = 3
  Faults = {"none", "dup", "drop"}
  Dev = {"DiscBeforeDup"}
INVARIANTS DupHarmless LossSafe
CHECK_DEADLOCK FALSE
