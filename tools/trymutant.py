#!/usr/bin/env python3
"""tools/trymutant.py <mutant dir> <seeded id> <property id> [more property ids...]

1. confirms the mutant in a scratch worktree outside /repo and /verif: the patch applies to HEAD, the package builds, the
   existing suite passes with it, the demonstration test fails with it and passes without it;
2. runs the quick checks of the given properties against that scratch worktree (VERIF_REPO; /repo itself is never touched, so that
   other runs reading /repo are not disturbed);
3. keeps the mutant as /verif/seeded/<seeded id>/ (patch.diff, zz_demo_test.go, notes.md, meta.json).
"""
import json
import os
import shutil
import subprocess
import sys
import time

SCRATCH = '/tmp/mx/confirm-%d' % os.getpid()
ENV = dict(os.environ, GOFLAGS='-mod=mod', GOPROXY='off', GOSUMDB='off', GOTOOLCHAIN='local', VERIF_REPO=SCRATCH)


def sh(cmd, cwd=None, timeout=1800):
    p = subprocess.run(cmd, shell=True, cwd=cwd, env=ENV, capture_output=True, text=True, timeout=timeout)
    return p.returncode, p.stdout + p.stderr


def main():
    mdir, sid, props = sys.argv[1], sys.argv[2], sys.argv[3:]
    tier = os.environ.get('MUT_TIER', 'quick')
    patch = os.path.join(mdir, 'patch.diff')
    demo = os.path.join(mdir, 'zz_demo_test.go')
    meta = {'seeded_id': sid, 'source': mdir, 'breaks': props[0], 'checked_with': props, 'ran': []}
    # ---- 1. confirm in a scratch worktree
    sh('git -C /repo worktree remove --force %s' % SCRATCH)
    rc, out = sh('git -C /repo worktree add -q %s HEAD' % SCRATCH)
    if rc:
        print('cannot create scratch worktree', out)
        return 2
    try:
        shutil.copy(demo, os.path.join(SCRATCH, 'zz_demo_test.go'))
        rc0, out0 = sh('go test -vet=off -count=1 . 2>&1 | tail -5', cwd=SCRATCH)
        clean_ok = 'ok ' in out0 and 'FAIL' not in out0
        os.remove(os.path.join(SCRATCH, 'zz_demo_test.go'))
        rc, out = sh('git apply %s' % os.path.abspath(patch), cwd=SCRATCH)
        if rc:
            print('patch does not apply:', out)
            sh('git -C /repo worktree remove --force %s' % SCRATCH)
            return 2
        rcb, outb = sh('go build ./... 2>&1 | tail -5', cwd=SCRATCH)
        rc1, out1 = sh('go test -vet=off -count=1 ./... 2>&1 | tail -8', cwd=SCRATCH)
        suite_ok = 'FAIL' not in out1 and 'ok ' in out1
        shutil.copy(demo, os.path.join(SCRATCH, 'zz_demo_test.go'))
        rc2, out2 = sh('go test -vet=off -count=1 . 2>&1 | tail -15', cwd=SCRATCH)
        demo_fails = 'FAIL' in out2
        meta['confirmed'] = {'demo_passes_on_HEAD': clean_ok, 'suite_passes_with_patch': suite_ok, 'demo_fails_with_patch': demo_fails}
        meta['ran'] += ['go test -vet=off -count=1 . (HEAD + demo)', 'git apply patch.diff; go test -vet=off -count=1 ./...', 'go test -vet=off -count=1 . (patch + demo)']
        print('CONFIRM demo_passes_on_HEAD=%s suite_passes_with_patch=%s demo_fails_with_patch=%s' % (clean_ok, suite_ok, demo_fails))
        if not (clean_ok and suite_ok and demo_fails):
            print(out0[-600:], out1[-600:], out2[-900:])
    except Exception:
        sh('git -C /repo worktree remove --force %s' % SCRATCH)
        raise
    ok = meta['confirmed']['demo_passes_on_HEAD'] and meta['confirmed']['suite_passes_with_patch'] and meta['confirmed']['demo_fails_with_patch']
    # ---- 2. run the checks against the mutant (still applied in the scratch worktree; the demonstration test is removed again)
    results = {}
    try:
        if ok:
            os.remove(os.path.join(SCRATCH, 'zz_demo_test.go'))
            for p in props:
                t0 = time.time()
                rc, out = sh('./check %s --tier %s' % (p, tier), cwd='/verif', timeout=3600)
                viol = [l for l in out.splitlines() if l.startswith('VIOLATION') or l.startswith('  what:')]
                results[p] = {'exit': rc, 'wall_s': round(time.time() - t0, 1), 'violations': viol[:6]}
                print('CHECK %s exit=%d (%.0fs) %s' % (p, rc, time.time() - t0, viol[1][:260] if len(viol) > 1 else ''))
    finally:
        sh('git -C /repo worktree remove --force %s' % SCRATCH)
    meta['check_results'] = results
    meta['detected_by'] = [p for p, r in results.items() if r['exit'] == 1]
    # ---- 3. keep it
    dest = os.path.join('/verif/seeded', sid)
    os.makedirs(dest, exist_ok=True)
    shutil.copy(patch, os.path.join(dest, 'patch.diff'))
    shutil.copy(demo, os.path.join(dest, 'zz_demo_test.go.txt'))
    if os.path.exists(os.path.join(mdir, 'notes.md')):
        shutil.copy(os.path.join(mdir, 'notes.md'), os.path.join(dest, 'notes.md'))
    meta['needs_to_manifest'] = 'see notes.md'
    with open(os.path.join(dest, 'meta.json'), 'w') as f:
        json.dump(meta, f, indent=1)
    print('KEPT' if ok else 'NOT-CONFIRMED', sid, 'detected_by=%s' % meta['detected_by'])
    return 0


if __name__ == '__main__':
    sys.exit(main())
