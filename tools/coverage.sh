#!/bin/bash
# Statement coverage of the library (/repo, non-test files) reached by the conformance harnesses of all quick checks.
# Answers "which code does the conformance step never observe?" (DESIGN.md 13.9).  Not a registered check.
set -u
cd "$(dirname "$0")/.."
export GOFLAGS=-mod=mod GOPROXY=off GOSUMDB=off GOTOOLCHAIN=local
COV=$(mktemp -d /tmp/verif-cov.XXXXXX)
export GOCOVERDIR=$COV VERIF_COVER=1
ids=${*:-$(seq -f 'C%02g' 1 20)}
for id in $ids; do
  ./check $id --tier quick --seed 1 > $COV/$id.log 2>&1; echo "$id rc=$?"
done
(cd harness && go tool covdata textfmt -i=$COV -o $COV/cover.txt && grep -v "^verif/harness" $COV/cover.txt > $COV/lib.txt; go tool cover -func=$COV/lib.txt > $COV/func.txt)
tail -1 $COV/func.txt
awk '$3+0 < 100.0' $COV/func.txt | sort -t$'\t' -k3 -n | head -80
echo "profile: $COV/cover.txt"
