#!/bin/bash
# Statement coverage of the library (/repo, non-test files) reached by the conformance harnesses of all quick checks.
# Answers "which code does the conformance step never observe?" (DESIGN.md 13.9).  Not a registered check.
set -u
cd "$(dirname "$0")/.."
export GOFLAGS=-mod=mod GOPROXY=off GOSUMDB=off GOTOOLCHAIN=local
COV=$(mktemp -d /tmp/verif-cov.XXXXXX)
export GOCOVERDIR=$COV VERIF_COVER=1
ids=${*:-$(seq -f 'C%02g' 1 20)}
for id in $ids; do
  ./check $id --tier quick --seed 1 > $COV/$id.log 2>&1; echo "$id rc=$?"
done
# the race-built harness (C16) counts atomically, the others by set: one textfmt per build, merged by maximum
python3 - "$COV" <<'PY'
import glob, os, subprocess, sys
cov = sys.argv[1]
hit = {}
for meta in glob.glob(os.path.join(cov, 'covmeta.*')):
    h = meta.rsplit('.', 1)[1]
    d = os.path.join(cov, 'm_' + h)
    os.makedirs(d)
    for f in glob.glob(os.path.join(cov, '*%s*' % h)):
        if os.path.isfile(f):
            os.rename(f, os.path.join(d, os.path.basename(f)))
    out = os.path.join(cov, h + '.txt')
    subprocess.run(['go', 'tool', 'covdata', 'textfmt', '-i=' + d, '-o', out], cwd='harness', check=True)
    for l in open(out):
        if l.startswith('mode:'):
            continue
        k, c = l.rsplit(' ', 1)
        hit[k] = max(hit.get(k, 0), int(c))
with open(os.path.join(cov, 'lib.txt'), 'w') as o:
    o.write('mode: set\n')
    for k, c in sorted(hit.items()):
        if k.startswith('github.com/asticode/go-astits/'):
            o.write('%s %d\n' % (k, 1 if c else 0))
PY
(cd harness && go tool cover -func=$COV/lib.txt > $COV/func.txt)
tail -1 $COV/func.txt
awk '$3+0 < 100.0' $COV/func.txt | sort -k3 -n | head -80
echo "profile: $COV/lib.txt"
