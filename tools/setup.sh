#!/bin/sh
# offline setup: nothing to fetch; verify the tools the checks need and warm the Go build cache
set -e
export GOFLAGS=-mod=mod GOPROXY=off GOSUMDB=off GOTOOLCHAIN=local
command -v java >/dev/null
command -v go >/dev/null
test -f /opt/veriftools/tla/tla2tools.jar
cd /verif/harness && cp /repo/go.sum go.sum && go build -tags verif -o /dev/null . 
echo setup-ok
