#!/usr/bin/env python3
"""regenerate /verif/MANIFEST.json from lib/claims.py (keeps the manifest valid at all times)"""
import json
import os
import sys

ROOT = os.path.dirname(os.path.dirname(os.path.abspath(__file__)))
sys.path.insert(0, os.path.join(ROOT, 'lib'))
import claims  # noqa

props = [json.loads(l) for l in open(os.path.join(ROOT, 'properties.jsonl'))]
checks = []
na = []
for p in props:
    pid = p['id']
    c = claims.CLAIMS.get(pid)
    if c is None:
        na.append({'property_id': pid, 'reason': claims.NOT_CLAIMED.get(pid, 'check under construction; not yet claimed')})
        continue
    checks.append({
        'property_id': pid,
        'quick_cmd': './check %s --tier quick' % pid,
        'thorough_cmd': './check %s --tier thorough' % pid,
        'evidence_file': '/verif/evidence/%s.json' % pid,
        'replay_cmd_template': './check %s --replay {path}' % pid,
        'engine': 'tla-trace-validation',
        'level_claimed': {'category': 'model_checking', 'text': c['text'], 'design_ref': c.get('ref', 'DESIGN.md 4')},
        'level_note': c['note'],
        'technique': c['technique'],
    })
m = {
    'version': 1,
    'setup_cmd': 'cd /verif && ./tools/setup.sh',
    'hooks': {'guard': 'verif', 'enable': 'go build -tags verif (harness module replaces github.com/asticode/go-astits with /repo)',
              'baseline_off_cmd': 'cd /repo && go test -vet=off -count=1 ./...',
              'source_commits': claims.HOOK_COMMITS, 'add_only': True},
    'engines': [{'name': 'tla-trace-validation', 'path': '/verif/check',
                 'serves_properties': [c['property_id'] for c in checks],
                 'kind_free_text': 'TLA+ system models checked with TLC (design level), TLC-generated and seeded scenarios replayed into the real '
                                   'Muxer/Demuxer by a Go harness, recorded ndjson traces validated by TLC against per-property trace specifications'}],
    'checks': checks,
    'not_applicable': na,
    'notes': 'See DESIGN.md. Exit 2 of a check = machinery failure (build/TLC/timeouts), never a verdict.',
}
json.dump(m, open(os.path.join(ROOT, 'MANIFEST.json'), 'w'), indent=1)
print('MANIFEST.json: %d checks, %d not claimed' % (len(checks), len(na)))
