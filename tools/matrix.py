#!/usr/bin/env python3
"""tools/matrix.py [-j N] [seeded ids...]  - mutation matrix: every kept change under /verif/seeded against the quick check of the
property it breaks (and the other properties its meta.json names).  Each change is applied to its own scratch worktree of /repo
under /tmp (never to /repo itself); the check is pointed at it with VERIF_REPO.  Writes /verif/seeded/MATRIX.json."""
import concurrent.futures as cf
import json
import os
import re
import subprocess
import sys
import time

ENV = dict(os.environ, GOFLAGS='-mod=mod', GOPROXY='off', GOSUMDB='off', GOTOOLCHAIN='local')


def sh(cmd, cwd=None, env=None, timeout=3600):
    p = subprocess.run(cmd, shell=True, cwd=cwd, env=env or ENV, capture_output=True, text=True, timeout=timeout)
    return p.returncode, p.stdout + p.stderr


VERIF = '/verif'      # replaced by a snapshot in main(): the checks then do not see edits made to /verif while the matrix runs


def one(sid):
    d = os.path.join('/verif/seeded', sid)
    meta = json.load(open(os.path.join(d, 'meta.json')))
    if str(meta.get('status', '')).startswith('neutralised'):
        return sid, {'neutralised': meta['status']}
    props = meta.get('checked_with') or [meta.get('breaks') or sid[:3]]
    wt = '/tmp/mx/%s' % sid
    sh('git -C /repo worktree remove --force %s' % wt)
    rc, out = sh('git -C /repo worktree add -q --detach %s HEAD' % wt)
    if rc:
        return sid, {'error': 'worktree: ' + out[-300:]}
    res = {}
    try:
        rc, out = sh('git apply %s' % os.path.join(d, 'patch.diff'), cwd=wt)
        if rc:
            return sid, {'error': 'patch does not apply: ' + out[-300:]}
        for p in props:
            t0 = time.time()
            rc, out = sh('./check %s --tier quick' % p, cwd=VERIF, env=dict(ENV, VERIF_REPO=wt))
            what = [l.strip() for l in out.splitlines() if l.startswith('  what:')]
            kind = re.search(r'"kind": "([^"]+)"', what[0]).group(1) if what else ''
            res[p] = {'exit': rc, 'wall_s': round(time.time() - t0), 'kind': kind}
            if rc == 2:
                res[p]['machinery'] = [l for l in out.splitlines() if 'MACHINERY' in l][:1]
    finally:
        sh('git -C /repo worktree remove --force %s' % wt)
    return sid, res


def main():
    args = sys.argv[1:]
    j = 4
    if args and args[0] == '-j':
        j = int(args[1])
        args = args[2:]
    global VERIF
    snap = '/tmp/mx/verif-snap-%d' % os.getpid()
    sh('mkdir -p /tmp/mx && rsync -a --delete --exclude .git --exclude .work --exclude replays --exclude seeded /verif/ %s/' % snap)
    VERIF = snap
    ids = args or sorted(x for x in os.listdir('/verif/seeded') if os.path.isdir(os.path.join('/verif/seeded', x)))
    out_path = os.environ.get('MATRIX_OUT', '/verif/seeded/MATRIX.json')
    matrix = json.load(open(out_path)) if os.path.exists(out_path) and args else {}
    with cf.ThreadPoolExecutor(j) as ex:
        for sid, res in ex.map(one, ids):
            matrix[sid] = res
            det = [p for p, r in res.items() if isinstance(r, dict) and r.get('exit') == 1]
            print(sid, 'detected_by=%s' % det, {p: (r.get('exit'), r.get('kind')) for p, r in res.items() if isinstance(r, dict)} if 'error' not in res else res, flush=True)
            json.dump(matrix, open(out_path, 'w'), indent=1, sort_keys=True)
    sh('git -C /repo worktree prune')
    sh('rm -rf %s' % snap)
    missed = [s for s, r in matrix.items() if 'neutralised' not in r and not any(isinstance(x, dict) and x.get('exit') == 1 for x in r.values())]
    neut = [s for s, r in matrix.items() if 'neutralised' in r]
    print('TOTAL %d changes, %d detected, %d neutralised by later fixes %s, missed: %s' % (len(matrix), len(matrix) - len(missed) - len(neut), len(neut), sorted(neut), missed))


if __name__ == '__main__':
    main()
