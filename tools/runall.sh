#!/bin/sh
# run every check (tier $1, default quick) on the current tree and summarise
TIER=${1:-quick}
cd "$(dirname "$0")/.."
mkdir -p /tmp/vh
for i in 01 02 03 04 05 06 07 08 09 10 11 12 13 14 15 16 17 18 19 20; do
  ./check C$i --tier $TIER > /tmp/vh/runall_${TIER}_C$i.log 2>&1
  echo "C$i exit=$? $(grep RESULT /tmp/vh/runall_${TIER}_C$i.log | sed 's/.*wall=//')  $(grep -c '^VIOLATION' /tmp/vh/runall_${TIER}_C$i.log) violations $(grep -E 'MACHINERY' /tmp/vh/runall_${TIER}_C$i.log | head -1 | cut -c1-150)"
done
