#!/bin/sh
# run the named checks (tier $1) on the current tree and summarise: tools/runsome.sh thorough C10 C12 ...
TIER=$1; shift
cd "$(dirname "$0")/.."
mkdir -p /tmp/vh
for c in "$@"; do
  ./check $c --tier $TIER > /tmp/vh/runsome_${TIER}_$c.log 2>&1
  echo "$c exit=$? $(grep RESULT /tmp/vh/runsome_${TIER}_$c.log | sed 's/.*wall=//')  $(grep -c '^VIOLATION' /tmp/vh/runsome_${TIER}_$c.log) violations $(grep -E 'MACHINERY' /tmp/vh/runsome_${TIER}_$c.log | head -1 | cut -c1-150)"
done
