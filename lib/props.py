"""Per-property pipelines (what is modelled, generated, run and judged) on top of lib/engine.py."""
import json
import os

from engine import *  # noqa

ASSUME_COMMON = [
    'TLC 1.8 / CommunityModules Json evaluate the monitors correctly',
    'the Go harness records calls, results and writer/reader bytes faithfully (recorder, concretiser, fault wrappers)',
]


def tag_scenarios(scs, prefix, seed, kind):
    out = []
    for i, s in enumerate(scs):
        s = dict(s)
        s['sid'] = '%s-%d' % (prefix, i)
        s['seed'] = (seed * 1000003 + i * 7919 + 17) % (2 ** 62)
        s['kind'] = kind
        out.append(s)
    return out


def samples_of(scs, n=3):
    res = []
    step = max(1, len(scs) // n)
    for s in scs[::step][:n]:
        js = json.dumps(s)
        res.append(json.loads(js) if len(js) < 4000 else {'sid': s.get('sid'), 'truncated': js[:4000]})
    return res


# ------------------------------------------------------------------ muxer family: C04, C05, C17

MUX_MON = {'C04': 'Mon_C04', 'C05': 'Mon_C05', 'C17': 'Mon_C17'}


def mux_drift(ctx, traces):
    """compare what the system model predicted for TLC-generated scenarios with the decoded real output (info only)"""
    drift = 0
    compared = 0
    examples = []
    for tp in traces:
        cur = None
        pk = []
        sid = None

        def flush():
            nonlocal drift, compared
            if cur is None or 'pred' not in cur:
                return
            compared += 1
            pred = cur['pred']
            got = {'n': cur['n'], 'err': cur['err'], 'part': cur['part'], 'pk': pk}
            if cur['op'] == 'packet':
                got['pk'] = [[p[0], 0, p[2], p[3], p[4]] for p in pk]
                pred = dict(pred, pk=[[p[0], 0, p[2], p[3], p[4]] for p in pred['pk']])
            if got != pred:
                drift += 1
                if len(examples) < 5:
                    examples.append({'trace': sid, 'op': cur['op'], 'i': cur.get('i'), 'pred': pred, 'got': got})

        with open(tp) as f:
            for line in f:
                e = json.loads(line)
                if e['ev'] == 'reset':
                    flush()
                    cur, pk, sid = None, [], e['t']
                elif e['ev'] == 'call':
                    flush()
                    cur, pk = e, []
                elif e['ev'] == 'pkt':
                    b = e['b']
                    afc = (b[3] >> 4) & 3
                    af = (1 + b[4]) if afc in (2, 3) else 0
                    pid = ((b[1] & 0x1f) << 8) | b[2]
                    n = 184 - af
                    if pid in (0, 4096):
                        af, n = 0, 184
                    pk.append([pid, b[3] & 15, (b[1] >> 6) & 1, af, n])
        flush()
    return drift, compared, examples


def run_mux_family(ctx, prop):
    monitor = MUX_MON[prop]
    build_harness(ctx)
    quick = ctx.tier == 'quick'
    # MODEL: the ideal design satisfies the invariants / action properties behind C04, C05, C17
    model_check(ctx, 'Mux', 'Mux_ideal_small.cfg' if quick else 'Mux_ideal_deep.cfg')
    # GEN: one scenario per transition of the model's state graph
    gen = gen_tlc(ctx, 'Mux', 'Mux_gen_quick.cfg' if quick else 'Mux_gen_deep.cfg')
    scs = tag_scenarios(gen, 'mg', ctx.seed, 'mux')
    # seeded random long histories (wrap-arounds, periods 1..50, large payloads) from the harness's generator
    rnd = harness_gen(ctx, 'mux', 150 if quick else 3000, ctx.seed, 60 if quick else 220)
    for s in rnd:
        s['sid'] = 'mr-' + s['sid']
    allscs = scs + rnd
    by_sid = {s['sid']: s for s in allscs}
    # RUN + JUDGE (keep traces of the TLC-generated part for drift)
    k = NCPU
    parts = [allscs[i::k] for i in range(k)]
    traces = []
    import concurrent.futures as cf

    def one(i):
        sp = ctx.path('scn_%d.ndjson' % i)
        tp = ctx.path('trace_%d.ndjson' % i)
        with open(sp, 'w') as f:
            for s in parts[i]:
                f.write(json.dumps(s) + '\n')
        harness_run(ctx, 'mux', sp, tp)
        return tp
    with cf.ThreadPoolExecutor(max_workers=NCPU) as ex:
        traces = list(ex.map(one, range(k)))
    drift, compared, dex = mux_drift(ctx, traces)
    log('DRIFT model-vs-code: %d of %d predicted calls differ%s' % (drift, compared, (' e.g. ' + json.dumps(dex[0])) if dex else ''))
    sample_events = []
    with open(traces[0]) as f:
        for _ in range(6):
            l = f.readline()
            if l:
                sample_events.append(json.loads(l))
    viols, events = judge_many(ctx, monitor, traces)
    shapes = {shape_hash(s) for s in allscs if any(o['op'] in ('data', 'tables', 'packet') for o in s['ops'])}
    cov = {
        'states': ctx.stats['states'], 'transitions': ctx.stats['transitions'],
        'traces_validated_against_impl': len(allscs), 'evaluations': events,
        'distinct_nontrivial': len(shapes),
        'rule': 'scenario = muxer history (period + operation list); TLC-generated: one per transition of Mux.tla state graph; '
                'random: seeded generator in harness/muxgen.go; non-trivial = emits at least one packet-producing call; distinct by hash of period+ops',
        'samples': samples_of(scs, 2) + samples_of(rnd, 1) + [{'trace_events': sample_events}],
        'exhaustive': False,
        'model_runs': ctx.stats['model_runs'], 'gen_runs': ctx.stats['gen_runs'],
        'drift': {'compared_calls': compared, 'differing': drift, 'examples': dex},
        'checker_cmd': 'tlc -workers 1 %s.tla (trace spec) over traces recorded by harness run -family mux' % monitor,
        'trusted_base': ASSUME_COMMON,
    }
    return finish(ctx, 'mux', monitor, by_sid, viols, events, cov, ASSUME_COMMON + [
        'C17: an additional table emission is not a violation; failed calls are not counted (DESIGN.md 7)',
        'C04: caller-built WritePacket packets are judged for structure only'])


PROPS = {
    'C04': lambda ctx: run_mux_family(ctx, 'C04'),
    'C05': lambda ctx: run_mux_family(ctx, 'C05'),
    'C17': lambda ctx: run_mux_family(ctx, 'C17'),
}
