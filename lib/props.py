"""Per-property pipelines (what is modelled, generated, run and judged) on top of lib/engine.py."""
import concurrent.futures as cf
import json
import os

from engine import *  # noqa

ASSUME_COMMON = [
    'TLC 1.8 / CommunityModules Json evaluate the trace specifications correctly',
    'the Go harness records calls, results and writer/reader bytes faithfully (recorder, concretiser, fault wrappers)',
]


def tag_scenarios(scs, prefix, seed, kind):
    out = []
    for i, s in enumerate(scs):
        s = dict(s)
        s['sid'] = '%s-%d' % (prefix, i)
        s['seed'] = (seed * 1000003 + i * 7919 + 17) % (2 ** 62)
        s['kind'] = kind
        out.append(s)
    return out


def samples_of(scs, n=3):
    res = []
    if not scs:
        return res
    step = max(1, len(scs) // n)
    for s in scs[::step][:n]:
        js = json.dumps(s)
        res.append(json.loads(js) if len(js) < 3000 else {'sid': s.get('sid'), 'truncated_json': js[:3000]})
    return res


def pipeline(ctx, monitor, family, scenarios, opt='', consts='', drift_fn=None, rule='', nontrivial=None, assumptions=(),
             exhaustive=False, extra_cov=None, binary=None):
    """RUN all scenarios on the real code (sharded over the cores), JUDGE each shard with the monitor, classify, write evidence"""
    by_sid = {s['sid']: s for s in scenarios}
    if len(by_sid) != len(scenarios):
        raise Machinery('duplicate scenario ids')
    k = max(1, min(NCPU, len(scenarios) // 20 + 1))
    parts = [scenarios[i::k] for i in range(k)]

    def one(i):
        sp = ctx.path('scn_%s_%d.ndjson' % (monitor, i))
        tp = ctx.path('trace_%s_%d.ndjson' % (monitor, i))
        with open(sp, 'w') as f:
            for s in parts[i]:
                f.write(json.dumps(s) + '\n')
        harness_run(ctx, family, sp, tp, opt, binary=binary)
        os.remove(sp)
        return tp

    with cf.ThreadPoolExecutor(max_workers=NCPU) as ex:
        traces = list(ex.map(one, range(k)))
    drift = None
    if drift_fn:
        d, compared, dex = drift_fn(ctx, traces)
        drift = {'compared': compared, 'differing': d, 'examples': dex}
        log('DRIFT model-vs-code: %d of %d predictions differ%s' % (d, compared, (' e.g. ' + json.dumps(dex[0])) if dex else ''))
    sample_events = []
    with open(traces[0]) as f:
        for _ in range(8):
            line = f.readline()
            if line:
                e = json.loads(line)
                if 'b' in e and isinstance(e['b'], list) and len(e['b']) > 24:
                    e['b'] = e['b'][:24] + ['... %d bytes' % len(e['b'])]
                sample_events.append(e)
    viols, events = judge_many(ctx, monitor, traces, consts)
    nt = nontrivial or (lambda s: True)
    shapes = {shape_hash(s) for s in scenarios if nt(s)}
    cov = {
        'states': max(1, ctx.stats['states']), 'transitions': max(1, ctx.stats['transitions']),
        'traces_validated_against_impl': len(scenarios), 'evaluations': events,
        'distinct_nontrivial': len(shapes), 'rule': rule,
        'samples': samples_of(scenarios, 3) + [{'first_trace_events': sample_events}],
        'exhaustive': exhaustive,
        'model_runs': ctx.stats['model_runs'], 'gen_runs': ctx.stats['gen_runs'],
        'checker_cmd': 'java tlc2.TLC -workers 1 %s.tla (trace specification) over ndjson traces recorded by `harness run -family %s`' % (monitor, family),
        'trusted_base': ASSUME_COMMON,
    }
    if drift is not None:
        cov['drift'] = drift
    if extra_cov:
        cov.update(extra_cov)
    return finish(ctx, family, monitor, by_sid, viols, events, cov, list(ASSUME_COMMON) + list(assumptions), opt=opt, consts=consts)


# ------------------------------------------------------------------ muxer family: C01, C04, C05, C17

MUX_MON = {'C04': 'Mon_C04', 'C05': 'Mon_C05', 'C17': 'Mon_C17', 'C01': 'Mon_C01'}


def mux_drift(ctx, traces):
    """compare what Mux.tla predicted for TLC-generated scenarios with the decoded real output (informational)"""
    drift = 0
    compared = 0
    examples = []
    for tp in traces:
        cur = None
        pk = []
        sid = None

        def flush():
            nonlocal drift, compared
            if cur is None or 'pred' not in cur:
                return
            compared += 1
            pred = cur['pred']
            got = {'n': cur['n'], 'err': cur['err'], 'part': cur['part'], 'pk': pk}
            if cur['op'] == 'packet':
                got['pk'] = [[p[0], 0, p[2], p[3], p[4]] for p in pk]
                pred = dict(pred, pk=[[p[0], 0, p[2], p[3], p[4]] for p in pred['pk']])
            if got != pred:
                drift += 1
                if len(examples) < 5:
                    examples.append({'trace': sid, 'op': cur['op'], 'i': cur.get('i'), 'pred': pred, 'got': got})

        with open(tp) as f:
            for line in f:
                e = json.loads(line)
                if e['ev'] == 'reset':
                    flush()
                    cur, pk, sid = None, [], e['t']
                elif e['ev'] == 'call':
                    flush()
                    cur, pk = e, []
                elif e['ev'] == 'pkt':
                    b = e['b']
                    afc = (b[3] >> 4) & 3
                    af = (1 + b[4]) if afc in (2, 3) else 0
                    pid = ((b[1] & 0x1f) << 8) | b[2]
                    n = 184 - af
                    if pid in (0, 4096):
                        af, n = 0, 184
                    pk.append([pid, b[3] & 15, (b[1] >> 6) & 1, af, n])
                elif e['ev'] in ('deliver', 'eof'):
                    flush()
                    cur = None
        flush()
    return drift, compared, examples


def run_mux_family(ctx, prop):
    monitor = MUX_MON[prop]
    build_harness(ctx)
    quick = ctx.tier == 'quick'
    # MODEL: the ideal design satisfies the invariants / action properties behind C04, C05, C17
    model_check(ctx, 'Mux', 'Mux_ideal_small.cfg' if quick else 'Mux_ideal_deep.cfg')
    # GEN: one scenario per transition of the model's state graph
    gen = gen_tlc(ctx, 'Mux', 'Mux_gen_quick.cfg' if quick else 'Mux_gen_deep.cfg')
    scs = tag_scenarios(gen, 'mg', ctx.seed, 'mux')
    # seeded random long histories (wrap-arounds, periods 1..50, large payloads) from the harness's generator
    opt = 'demux' if prop == 'C01' else ''
    rnd = harness_gen(ctx, 'mux', 150 if quick else 3000, ctx.seed, 60 if quick else 220, opt=opt)
    return pipeline(
        ctx, monitor, 'mux', scs + rnd, opt=opt, drift_fn=mux_drift,
        rule='scenario = muxer history (period + operation list); TLC-generated: one per transition of the Mux.tla state graph; random: seeded '
             'generator harness/muxgen.go; non-trivial = at least one packet-producing call; distinct by hash of period+ops',
        nontrivial=lambda s: any(o['op'] in ('data', 'tables', 'packet') for o in s['ops']),
        assumptions=['C17: an additional table emission is not a violation; failed calls are not counted (DESIGN.md 7)',
                     'C04: caller-built WritePacket packets are judged for structure only',
                     'C01: elementary PIDs are >= 0x20 and differ from the PMT PID 0x1000 and 0x1FFF; adaptation fields that do not fit with the PES header are compared for payload/header only'])


# ------------------------------------------------------------------ demux family
def flatten_stream(sc):
    """TLC's Demux.tla export -> the harness's stream scenario (flat unit records, section idents, completion requested)"""
    units = []
    for u in sc['units']:
        t = u['tmpl']
        f = {'id': u['id'], 'pid': u['pid'], 't': t['t']}
        if t['t'] == 'pes':
            f.update(total=t['total'], hl=t['hl'], bounded=t['bounded'])
        else:
            f.update(ptr=t['ptr'], trail=t['trail'],
                     secs=[{'tid': s['tid'], 'slen': s['slen'], 'ident': 100 * u['id'] + j, 'badcrc': not s['crcok']} for j, s in enumerate(t['secs'])])
        units.append(f)
    pkts = []
    for p in sc['pkts']:
        q = {k: v for k, v in p.items() if k not in ('k',)}
        q['k'] = '' if p['k'] == 'pl' else p['k']
        pkts.append(q)
    return {'units': units, 'pkts': pkts, 'pmtpids': sorted(sc.get('pmtpids', [])), 'complete': True}


def demux_scenarios(ctx, cfgs, prefix, sample=None):
    scs = []
    for cfg in cfgs:
        gen = gen_tlc(ctx, 'MC_Demux', cfg)
        if sample and len(gen) > sample:
            step = len(gen) / float(sample)
            gen = [gen[int(i * step)] for i in range(sample)]
        scs += [flatten_stream(g) for g in gen]
    return tag_scenarios(scs, prefix, ctx.seed, 'demux')


def run_c02(ctx):
    build_harness(ctx)
    quick = ctx.tier == 'quick'
    for cfg in (['Demux_c02_psi.cfg'] if quick else ['Demux_c02_psi.cfg', 'Demux_c02_pes.cfg']):
        model_check(ctx, 'MC_Demux', cfg)
    if quick:
        scs = demux_scenarios(ctx, ['Demux_gen_psi_quick.cfg', 'Demux_gen_pes_quick.cfg'], 'dg', sample=12000)
    else:
        scs = demux_scenarios(ctx, ['Demux_gen_psi_deep.cfg', 'Demux_gen_pes_deep.cfg', 'Demux_gen_big.cfg'], 'dg')
    rnd = harness_gen(ctx, 'demux', 400 if quick else 20000, ctx.seed, 4)
    return pipeline(
        ctx, 'Mon_C02', 'demux', scs + rnd,
        rule='scenario = well-formed transport stream (units with byte layouts + packetisation + interleaving); TLC-generated: one per transition of the '
             'Demux.tla (generator x demuxer) state graph, completed canonically; random: seeded reference multiplexer harness/streamgen.go '
             '(1..8 PIDs, bounded/unbounded PES, 1..3 sections, pointer fields, trailing stuffing or exact fit); distinct by hash of units+packets',
        assumptions=['well-formed per ISO 13818-1 2.4.4: the payload_unit_start packet of a section carries the section\'s first byte; on PAT/PMT PIDs no '
                     'interior section boundary coincides with a packet boundary (DESIGN.md 7)', 'explicit packet size 188 for the no-read-ahead clause'])


def fault_variants(sc, kinds=('dup', 'drop'), every=1):
    """every single-packet duplication / deletion position of a clean stream scenario"""
    out = []
    idx = [i for i, p in enumerate(sc['pkts']) if p.get('k', '') == '']
    for n, i in enumerate(idx):
        if n % every:
            continue
        for f in kinds:
            v = dict(sc)
            pk = [dict(p) for p in sc['pkts']]
            if f == 'dup':
                d = dict(pk[i])
                d['f'] = 'dup'
                pk.insert(i + 1, d)
            else:
                pk[i]['f'] = 'drop'
            v['pkts'] = pk
            v['sid'] = '%s-%s%d' % (sc['sid'], f, i)
            out.append(v)
    return out


def run_c06(ctx):
    build_harness(ctx)
    quick = ctx.tier == 'quick'
    model_check(ctx, 'MC_Demux', 'Demux_c06.cfg')
    # (a) TLC: behaviours of the generator x channel x demuxer model with one dup/drop anywhere
    tl = demux_scenarios(ctx, ['Demux_gen_c06_quick.cfg' if quick else 'Demux_gen_c06_deep.cfg'], 'fg', sample=6000 if quick else None)
    tl = [s for s in tl if any('f' in p for p in s['pkts'])]
    # (b) every single duplication and deletion position of clean streams (TLC-generated small ones and seeded random ones)
    clean = demux_scenarios(ctx, ['Demux_gen_psi_quick.cfg', 'Demux_gen_pes_quick.cfg'], 'cg', sample=300 if quick else 6000)
    rnd = harness_gen(ctx, 'demux', 60 if quick else 1500, ctx.seed, 3)
    ex = []
    for s in clean + rnd:
        ex += fault_variants(s)
    # (c) seeded multi-fault patterns (bursts < 16, duplicates of first/middle/last packets)
    multi = harness_gen(ctx, 'pair', 300 if quick else 10000, ctx.seed, 3)
    return pipeline(
        ctx, 'Mon_C06', 'pair', tl + ex + multi,
        rule='scenario = (clean stream, channel faults); TLC: transitions of Demux.tla with Faults={dup,drop}; exhaustive per stream: every single '
             'duplication and deletion position; random: multi-fault patterns; distinct by hash of units+packets+fault marks',
        assumptions=['errors returned on a faulted stream are not violations; a duplicate on a PSI PID may cause a second delivery of the same section',
                     'loss domain: < 16 consecutive losses per PID and a later payload packet of that PID (scenarios outside are skipped by the harness)'])


# ------------------------------------------------------------------ C18: I/O failures surfaced

def run_c18(ctx):
    build_harness(ctx)
    quick = ctx.tier == 'quick'
    model_check(ctx, 'Writer', 'Writer_ideal.cfg')
    scs = harness_gen(ctx, 'muxfault', 12 if quick else 120, ctx.seed, 4)
    return pipeline(
        ctx, 'Mon_C18', 'mux', scs,
        rule='fault enumeration: for each base muxer history (last packet needing 0/1/2/3/many stuffing bytes, WriteTables, WritePacket) one run per '
             'index of the writer\'s Write calls x {one-shot, permanent}; distinct by (history, index, mode)',
        exhaustive=False,
        assumptions=['per-call reading of "byte count no larger than what the writer accepted"'])


PROPS = {
    'C01': lambda ctx: run_mux_family(ctx, 'C01'),
    'C04': lambda ctx: run_mux_family(ctx, 'C04'),
    'C05': lambda ctx: run_mux_family(ctx, 'C05'),
    'C17': lambda ctx: run_mux_family(ctx, 'C17'),
    'C18': run_c18,
    'C02': run_c02,
    'C06': run_c06,
}
