"""Per-property pipelines (what is modelled, generated, run and judged) on top of lib/engine.py."""
import concurrent.futures as cf
import json
import os

from engine import *  # noqa

ASSUME_COMMON = [
    'TLC 1.8 / CommunityModules Json evaluate the trace specifications correctly',
    'the Go harness records calls, results and writer/reader bytes faithfully (recorder, concretiser, fault wrappers)',
]


def tag_scenarios(scs, prefix, seed, kind):
    out = []
    for i, s in enumerate(scs):
        s = dict(s)
        s['sid'] = '%s-%d' % (prefix, i)
        s['seed'] = (seed * 1000003 + i * 7919 + 17) % (2 ** 62)
        s['kind'] = kind
        out.append(s)
    return out


def samples_of(scs, n=3):
    res = []
    if not scs:
        return res
    step = max(1, len(scs) // n)
    for s in scs[::step][:n]:
        js = json.dumps(s)
        res.append(json.loads(js) if len(js) < 3000 else {'sid': s.get('sid'), 'truncated_json': js[:3000]})
    return res


def pipeline(ctx, monitor, family, scenarios, opt='', consts='', drift_fn=None, rule='', nontrivial=None, assumptions=(),
             exhaustive=False, extra_cov=None, binary=None, more=()):
    """RUN all scenarios on the real code (sharded over the cores), JUDGE each shard with the monitor, classify, write evidence.
    `more` = further (family, scenarios, opt[, monitor]) groups, judged by the same monitor unless they name their own."""
    groups = [(family, scenarios, opt, monitor)] + [tuple(g) + (monitor,) * (4 - len(g)) for g in more]
    allscs = []
    for fam, scs, o, mon in groups:
        for s in scs:
            s['_fam'], s['_opt'], s['_mon'] = fam, o, mon
        allscs += scs
    by_sid = {s['sid']: s for s in allscs}
    if len(by_sid) != len(allscs):
        raise Machinery('duplicate scenario ids')
    jobs = []
    for fam, scs, o, mon in groups:
        k = max(1, min(NCPU, len(scs) // 20 + 1))
        if fam == 'alias':
            k = len(scs)            # one process per scenario: a race report belongs to exactly one scenario
        for i in range(k):
            part = scs[i::k]
            if part:
                jobs.append((fam, o, part, len(jobs), mon))

    def one(job):
        fam, o, part, i, mon = job
        sp = ctx.path('scn_%s_%d.ndjson' % (mon, i))
        tp = ctx.path('trace_%s_%d.ndjson' % (mon, i))
        with open(sp, 'w') as f:
            for s in part:
                f.write(json.dumps(s) + '\n')
        harness_run(ctx, fam, sp, tp, o, binary=binary)
        os.remove(sp)
        return tp

    with cf.ThreadPoolExecutor(max_workers=NCPU) as ex:
        traces = list(ex.map(one, jobs))
    scenarios = allscs
    drift = None
    if drift_fn:
        d, compared, dex = drift_fn(ctx, traces)
        drift = {'compared': compared, 'differing': d, 'examples': dex}
        log('DRIFT model-vs-code: %d of %d predictions differ%s' % (d, compared, (' e.g. ' + json.dumps(dex[0])) if dex else ''))
    sample_events = []
    with open(traces[0]) as f:
        for _ in range(8):
            line = f.readline()
            if line:
                e = json.loads(line)
                if 'b' in e and isinstance(e['b'], list) and len(e['b']) > 24:
                    e['b'] = e['b'][:24] + ['... %d bytes' % len(e['b'])]
                sample_events.append(e)
    viols, events = [], 0
    for mon in sorted({j[4] for j in jobs}):
        v, n = judge_many(ctx, mon, [t for t, j in zip(traces, jobs) if j[4] == mon], consts if mon == monitor else '')
        viols += v
        events += n
    nt = nontrivial or (lambda s: True)
    shapes = {shape_hash(s) for s in scenarios if nt(s)}
    cov = {
        'states': max(1, ctx.stats['states']), 'transitions': max(1, ctx.stats['transitions']),
        'traces_validated_against_impl': len(scenarios), 'evaluations': events,
        'distinct_nontrivial': len(shapes), 'rule': rule,
        'samples': samples_of(scenarios, 3) + [{'first_trace_events': sample_events}],
        'exhaustive': exhaustive,
        'model_runs': ctx.stats['model_runs'], 'gen_runs': ctx.stats['gen_runs'], 'lemmas': ctx.stats.get('lemmas', []),
        'checker_cmd': 'java tlc2.TLC -workers 1 %s.tla (trace specification) over ndjson traces recorded by `harness run -family %s`' % (monitor, family),
        'trusted_base': ASSUME_COMMON,
    }
    if drift is not None:
        cov['drift'] = drift
    if extra_cov:
        cov.update(extra_cov)
    return finish(ctx, family, monitor, by_sid, viols, events, cov, list(ASSUME_COMMON) + list(assumptions), opt=opt, consts=consts, binary=binary,
                  retries=5 if family == 'alias' else 1)


# ------------------------------------------------------------------ muxer family: C01, C04, C05, C17

MUX_MON = {'C04': 'Mon_C04', 'C05': 'Mon_C05', 'C17': 'Mon_C17', 'C01': 'Mon_C01'}


def mux_drift(ctx, traces):
    """compare what Mux.tla predicted for TLC-generated scenarios with the decoded real output (informational)"""
    drift = 0
    compared = 0
    examples = []
    for tp in traces:
        cur = None
        pk = []
        sid = None

        def flush():
            nonlocal drift, compared
            if cur is None or 'pred' not in cur:
                return
            compared += 1
            pred = cur['pred']
            got = {'n': cur['n'], 'err': cur['err'], 'part': cur['part'], 'pk': pk}
            if cur['op'] == 'packet':
                got['pk'] = [[p[0], 0, p[2], p[3], p[4]] for p in pk]
                pred = dict(pred, pk=[[p[0], 0, p[2], p[3], p[4]] for p in pred['pk']])
            if got != pred:
                drift += 1
                if len(examples) < 5:
                    examples.append({'trace': sid, 'op': cur['op'], 'i': cur.get('i'), 'pred': pred, 'got': got})

        with open(tp) as f:
            for line in f:
                e = json.loads(line)
                if e['ev'] == 'reset':
                    flush()
                    cur, pk, sid = None, [], e['t']
                elif e['ev'] == 'call':
                    flush()
                    cur, pk = e, []
                elif e['ev'] == 'pkt':
                    b = e['b']
                    afc = (b[3] >> 4) & 3
                    af = (1 + b[4]) if afc in (2, 3) else 0
                    pid = ((b[1] & 0x1f) << 8) | b[2]
                    n = 184 - af
                    if pid in (0, 4096):
                        af, n = 0, 184
                    pk.append([pid, b[3] & 15, (b[1] >> 6) & 1, af, n])
                elif e['ev'] in ('deliver', 'eof'):
                    flush()
                    cur = None
        flush()
    return drift, compared, examples


def run_mux_family(ctx, prop):
    monitor = MUX_MON[prop]
    build_harness(ctx)
    quick = ctx.tier == 'quick'
    # MODEL: the ideal design satisfies the invariants / action properties behind C04, C05, C17
    model_check(ctx, 'Mux', 'Mux_ideal_small.cfg' if quick else 'Mux_ideal_deep.cfg')
    if prop in ('C04', 'C01'):
        apalache_inductive(ctx, 'Packetise')      # the packetiser's arithmetic for all payload lengths
    # GEN: one scenario per transition of the model's state graph
    gen = gen_tlc(ctx, 'Mux', 'Mux_gen_quick.cfg' if quick else 'Mux_gen_deep.cfg')
    scs = tag_scenarios(gen, 'mg', ctx.seed, 'mux')
    # long behaviours of the same model (TLC simulation, 48 operations each: counter wrap-arounds, periods, version changes), with the
    # model's per-call predictions like the exhaustive ones
    sim = [g for g in gen_tlc(ctx, 'Mux', 'Mux_sim.cfg', simulate={'num': 120 if quick else 600, 'depth': 49}) if len(g['ops']) == 48]
    scs += tag_scenarios(sim, 'ms', ctx.seed, 'mux')
    # seeded random long histories (wrap-arounds, periods 1..50, large payloads) from the harness's generator
    opt = 'demux' if prop == 'C01' else ''
    rnd = harness_gen(ctx, 'mux', 150 if quick else 3000, ctx.seed, 60 if quick else 220, opt=opt)
    more = []
    if prop in ('C04', 'C05'):
        # histories in which the io.Writer fails once, at every Write index: the failing call is C18's, every call after it has to be exact again
        # (C05: a call of which the writer took nothing has consumed no counter value)
        once = [s for s in harness_gen(ctx, 'muxfault', 6 if quick else 60, ctx.seed, 4) if s['fault']['mode'] in ('once', 'oncefull', 'pattwice', 'cancel')]
        more = [('mux', once, '', monitor)]
    return pipeline(
        ctx, monitor, 'mux', scs + rnd, opt=opt, drift_fn=mux_drift, more=more,
        rule='scenario = muxer history (period + operation list); TLC-generated: one per transition of the Mux.tla state graph, and long behaviours from '
             'TLC simulation (48 operations); random: seeded '
             'generator harness/muxgen.go; non-trivial = at least one packet-producing call; distinct by hash of period+ops',
        nontrivial=lambda s: any(o['op'] in ('data', 'tables', 'packet') for o in s['ops']),
        assumptions=['C17: an additional table emission is not a violation; failed calls are not counted (DESIGN.md 7)',
                     'C04: caller-built WritePacket packets are judged for structure only',
                     'C01: elementary PIDs are >= 0x20 and differ from the PMT PID 0x1000 and 0x1FFF; adaptation fields that do not fit with the PES header are compared for payload/header only'])


# ------------------------------------------------------------------ demux family
def flatten_stream(sc):
    """TLC's Demux.tla export -> the harness's stream scenario (flat unit records, section idents, completion requested)"""
    units = []
    for u in sc['units']:
        t = u['tmpl']
        f = {'id': u['id'], 'pid': u['pid'], 't': t['t']}
        if t['t'] == 'pes':
            f.update(total=t['total'], hl=t['hl'], bounded=t['bounded'])
        else:
            f.update(ptr=t['ptr'], trail=t['trail'],
                     secs=[{'tid': s['tid'], 'slen': s['slen'], 'ident': 100 * u['id'] + j, 'badcrc': not s['crcok']} for j, s in enumerate(t['secs'])])
        units.append(f)
    pkts = []
    for p in sc['pkts']:
        q = {k: v for k, v in p.items() if k not in ('k',)}
        q['k'] = '' if p['k'] == 'pl' else p['k']
        pkts.append(q)
    out = {'units': units, 'pkts': pkts, 'pmtpids': sorted(sc.get('pmtpids', [])), 'complete': True}
    if sc.get('quiescent') and not any('f' in p for p in pkts):
        out['mpred'] = sc.get('pred', [])          # the model's prediction of all deliveries (kept out of the harness's sight)
    return out


def demux_scenarios(ctx, cfgs, prefix, sample=None):
    scs = []
    for cfg in cfgs:
        gen = gen_tlc(ctx, 'MC_Demux', cfg)
        if sample and len(gen) > sample:
            step = len(gen) / float(sample)
            gen = [gen[int(i * step)] for i in range(sample)]
        scs += [flatten_stream(g) for g in gen]
    return tag_scenarios(scs, prefix, ctx.seed, 'demux')


def demux_drift_fn(scenarios):
    """model -> code conformance for Demux.tla: for streams that end in a quiescent model state, the real Demuxer's deliveries
    (pid, kind, section identity / PES length, in delivery order incl. the EOF drain) must equal what the model computed"""
    preds = {s['sid']: s['mpred'] for s in scenarios if 'mpred' in s}

    def fn(ctx, traces):
        drift = compared = 0
        examples = []
        for tp in traces:
            sid, got = None, []

            def flush():
                nonlocal drift, compared
                if sid in preds:
                    compared += 1
                    want = []
                    for pid, k, u, sidx, ln in preds[sid]:
                        want.append([pid, k, ln if k == 'pes' else 100 * u + (sidx - 1)])
                    if want != got:
                        drift += 1
                        if len(examples) < 5:
                            examples.append({'trace': sid, 'model': want, 'code': got})
            with open(tp) as f:
                for line in f:
                    e = json.loads(line)
                    if e['ev'] == 'reset':
                        flush()
                        sid, got = e['t'], []
                    elif e['ev'] == 'deliver':
                        got.append([e['pid'], e['kind'], e['len'] if e['kind'] == 'pes' else e['ident']])
            flush()
        return drift, compared, examples
    return fn


def run_c02(ctx):
    build_harness(ctx)
    quick = ctx.tier == 'quick'
    for cfg in (['Demux_c02_psi.cfg', 'Demux_c02_early.cfg'] if quick else ['Demux_c02_psi.cfg', 'Demux_c02_early.cfg', 'Demux_c02_pes.cfg']):
        model_check(ctx, 'MC_Demux', cfg)
    model_check(ctx, 'MC_PacketPool', 'PacketPool.cfg', workers=4)
    if quick:
        scs = demux_scenarios(ctx, ['Demux_gen_psi_quick.cfg', 'Demux_gen_pes_quick.cfg', 'Demux_gen_early_quick.cfg'], 'dg', sample=9000)
    else:
        scs = demux_scenarios(ctx, ['Demux_gen_psi_deep.cfg', 'Demux_gen_pes_deep.cfg', 'Demux_gen_big.cfg', 'Demux_gen_early_deep.cfg'], 'dg', sample=200000)
    # long behaviours of the same model (TLC simulation: 4 PIDs, up to 30 packets, counter wrap), with the model's delivery predictions
    sim = [g for g in gen_tlc(ctx, 'MC_Demux', 'Demux_sim.cfg', simulate={'num': 150 if quick else 1500, 'depth': 31})
           if g.get('quiescent') and len(g['pkts']) >= 10]
    if len(sim) > (400 if quick else 6000):
        step = len(sim) / float(400 if quick else 6000)
        sim = [sim[int(i * step)] for i in range(400 if quick else 6000)]
    scs += tag_scenarios([flatten_stream(g) for g in sim], 'ds', ctx.seed, 'demux')
    rnd = harness_gen(ctx, 'demux', 300 if quick else 15000, ctx.seed, 4)
    rnd2 = harness_gen(ctx, 'demux', 150 if quick else 5000, ctx.seed + 7777, 4, opt='earlypmt')
    for s in rnd2:
        s['sid'] = 'e' + s['sid']
    rnd += rnd2
    if len(rnd) > 8:
        rnd[8]['run'] = {'api': 'longgap'}  # plus one very long silence of a PID (half a million packets of another PID in between)
    for s in rnd[:8]:
        s['run'] = {'api': 'packed'}        # plus two sections packed the ISO way (the tail of one behind the pointer_field of the next)
    return pipeline(
        ctx, 'Mon_C02', 'demux', scs + rnd, drift_fn=demux_drift_fn(scs), more=[acc_group(scs + rnd, 800 if quick else 30000, ctx.seed)],
        rule='scenario = well-formed transport stream (units with byte layouts + packetisation + interleaving); TLC-generated: one per transition of the '
             'Demux.tla (generator x demuxer) state graph, completed canonically; random: seeded reference multiplexer harness/streamgen.go '
             '(1..8 PIDs, bounded/unbounded PES, 1..3 sections, pointer fields, trailing stuffing or exact fit); distinct by hash of units+packets. '
             'A sample of the streams plus one free-alphabet stream each is validated step by step against PacketPool.tla (Mon_Acc)',
        assumptions=['well-formed per ISO 13818-1 2.4.4: the payload_unit_start packet of a section carries the section\'s first byte; on PAT/PMT PIDs no '
                     'interior section boundary coincides with a packet boundary (DESIGN.md 7)', 'explicit packet size 188 for the no-read-ahead clause',
                     'units on a PMT PID that start before the first PAT is complete are optional (a receiver cannot know the PID yet); units that start later are not'])


def fault_variants(sc, kinds=('dup', 'duppcr', 'drop'), every=1):
    """every single-packet duplication / deletion position of a clean stream scenario"""
    out = []
    idx = [i for i, p in enumerate(sc['pkts']) if p.get('k', '') == '']
    for n, i in enumerate(idx):
        if n % every:
            continue
        for f in kinds:
            v = dict(sc)
            pk = [dict(p) for p in sc['pkts']]
            if f in ('dup', 'duppcr'):
                if f == 'duppcr' and not pk[i].get('pcr'):
                    continue
                d = dict(pk[i])
                d['f'] = 'dup'
                d['dp'] = f == 'duppcr'
                pk.insert(i + 1, d)
            else:
                pk[i]['f'] = 'drop'
            v['pkts'] = pk
            v['sid'] = '%s-%s%d' % (sc['sid'], f, i)
            out.append(v)
    return out


def acc_group(scs, cap, seed):
    """the same streams once more through the `acc` family: every packet, accumulator decision and group handed to NextData's parser is
    validated against spec/PacketPool.tla by the trace specification Mon_Acc (plus one free-alphabet stream per scenario)"""
    import random
    rnd = random.Random(seed)
    pick = scs if len(scs) <= cap else rnd.sample(scs, cap)
    out = []
    for s in pick:
        c = {k: v for k, v in s.items() if not k.startswith('_')}
        c['sid'] = 'acc-' + s['sid']
        out.append(c)
    return ('acc', out, '', 'Mon_Acc')


def pool_behaviours(ctx, cap):
    """model -> code: one behaviour per explored Add transition of PacketPool.tla (small alphabet incl. the reads of isPSIComplete that can
    fail, counters 0 / 1 / 15), replayed into the real Demuxer and validated by Mon_Acc like every other trace"""
    gen = gen_tlc(ctx, 'MC_PacketPool', 'PacketPool_gen_quick.cfg' if ctx.tier == 'quick' else 'PacketPool_gen_deep.cfg')
    if len(gen) > cap:
        step = len(gen) / float(cap)
        gen = [gen[int(i * step)] for i in range(cap)]
    return ('accreplay', tag_scenarios(gen, 'pp', ctx.seed, 'accreplay'), '', 'Mon_Acc')


def run_c06(ctx):
    build_harness(ctx)
    quick = ctx.tier == 'quick'
    model_check(ctx, 'MC_Demux', 'Demux_c06.cfg' if quick else 'Demux_c06_deep.cfg')
    model_check(ctx, 'MC_PacketPool', 'PacketPool.cfg', workers=4)      # the pool over a free packet alphabet: queues and returned groups are runs
    apalache_inductive(ctx, 'PacketPoolShape', what='symbolic queues of up to 8 packets, any contents, isPSIComplete an arbitrary oracle')
    # (a) TLC: behaviours of the generator x channel x demuxer model with one dup/drop anywhere
    tl = demux_scenarios(ctx, ['Demux_gen_c06_quick.cfg' if quick else 'Demux_gen_c06_deep.cfg'], 'fg', sample=6000 if quick else 150000)
    tl = [s for s in tl if any('f' in p for p in s['pkts'])]
    # (b) every single duplication and deletion position of clean streams (TLC-generated small ones and seeded random ones)
    clean = demux_scenarios(ctx, ['Demux_gen_psi_quick.cfg', 'Demux_gen_pes_quick.cfg'], 'cg', sample=300 if quick else 6000)
    rnd = harness_gen(ctx, 'demux', 60 if quick else 1500, ctx.seed, 3)
    ex = []
    for s in clean + rnd:
        ex += fault_variants(s)
    # (c) seeded multi-fault patterns (bursts < 16, duplicates of first/middle/last packets)
    multi = harness_gen(ctx, 'pair', 300 if quick else 10000, ctx.seed, 3)
    return pipeline(
        ctx, 'Mon_C06', 'pair', tl + ex + multi, more=[acc_group(tl + ex + multi, 600 if quick else 20000, ctx.seed), pool_behaviours(ctx, 4000 if quick else 320000)],
        rule='scenario = (clean stream, channel faults); TLC: transitions of Demux.tla with Faults={dup,drop}; exhaustive per stream: every single '
             'duplication and deletion position; random: multi-fault patterns; distinct by hash of units+packets+fault marks. A sample of the faulted '
             'streams and one free-alphabet stream each (any counter, unit start, adaptation-only, transport_error, discontinuity_indicator, sound '
             'and unsound PSI payloads) are also validated step by step against PacketPool.tla (Mon_Acc: accumulator hook decisions, groups handed '
             'to NextData, end-of-stream dump)',
        assumptions=['errors returned on a faulted stream are not violations; a duplicate on a PSI PID may cause a second delivery of the same section',
                     'loss domain: < 16 consecutive losses per PID and a later payload packet of that PID (scenarios outside are skipped by the harness)'])


def unit_total(u):
    if u['t'] == 'pes':
        return u['total']
    return 1 + u.get('ptr', 0) + sum(3 + x['slen'] for x in u['secs']) + u.get('trail', 0)


def complete_stream(sc):
    """append the canonical completion (remaining bytes of open units in 184-byte chunks, PID order of first appearance) - same rule as the harness"""
    sc = dict(sc)
    tot = {u['id']: unit_total(u) for u in sc['units']}
    prog, lastcc, openu, order = {}, {}, {}, []
    for p in sc['pkts']:
        if p.get('k', '') == '':
            prog[p['u']] = max(prog.get(p['u'], 0), p.get('off', 0) + p['n'])
            if p['pid'] not in openu:
                order.append(p['pid'])
            openu[p['pid']] = p['u']
            if p.get('f') != 'dup':
                lastcc[p['pid']] = p.get('cc', 0)
    pk = [dict(p) for p in sc['pkts']]
    for pid in order:
        u = openu[pid]
        while prog[u] < tot[u]:
            n = min(184, tot[u] - prog[u])
            lastcc[pid] = (lastcc[pid] + 1) % 16
            pk.append({'pid': pid, 'cc': lastcc[pid], 'u': u, 'off': prog[u], 'n': n, 'k': ''})
            prog[u] += n
    sc['pkts'] = pk
    sc['complete'] = False
    return sc


def merge_groups(sc):
    """the packet sequences that may be merged freely: PAT and PMT PIDs form one sequence (a PMT is known only through its PAT), every other PID its own"""
    core = set([0] + list(sc.get('pmtpids', [])))
    groups = {}
    for i, p in enumerate(sc['pkts']):
        key = 0 if p['pid'] in core else p['pid']
        groups.setdefault(key, []).append(i)
    return [groups[k] for k in sorted(groups)]


def run_c07(ctx):
    import random
    build_harness(ctx)
    quick = ctx.tier == 'quick'
    rnd_py = random.Random(ctx.seed)
    model_check(ctx, 'MC_Demux', 'Demux_c07.cfg')            # inserted null / adaptation-only / transport-error packets leave every PID's deliveries unchanged
    pats = gen_tlc(ctx, 'MC_Merge', 'Merge_quick.cfg' if quick else 'Merge_deep.cfg', tag='MRG')
    by_counts = {}
    for m in pats:
        by_counts.setdefault(tuple(m['counts']), []).append(m['order'])
    clean = demux_scenarios(ctx, ['Demux_gen_psi_quick.cfg', 'Demux_gen_pes_quick.cfg'], 'mg', sample=1500 if quick else 30000)
    rnd = harness_gen(ctx, 'demux', 40 if quick else 1500, ctx.seed, 3)
    scs = []
    exhaustive_sets = 0
    budget = 40 if quick else 400
    for s in clean + rnd:
        s = complete_stream(s)
        groups = merge_groups(s)
        counts = tuple(len(g) for g in groups)
        vs = []
        orders = by_counts.get(counts)
        if orders is not None and len(orders) <= 3000:
            exhaustive_sets += 1
            chosen = orders if len(orders) <= budget else rnd_py.sample(orders, budget)
            for o in chosen:
                it = [iter(g) for g in groups]
                vs.append({'t': 'merge', 'order': [next(it[k - 1]) for k in o]})
        else:
            for _ in range(6 if quick else 20):
                pos = [0] * len(groups)
                order = []
                left = sum(counts)
                while left:
                    k = rnd_py.choice([i for i in range(len(groups)) if pos[i] < counts[i]])
                    order.append(groups[k][pos[k]])
                    pos[k] += 1
                    left -= 1
                vs.append({'t': 'merge', 'order': order})
        n = len(s['pkts'])
        pids = sorted({p['pid'] for p in s['pkts'] if p.get('k', '') == ''})
        ins_pos = range(n + 1) if n <= 12 else sorted(rnd_py.sample(range(n + 1), 8))
        for at in ins_pos:
            k = rnd_py.choice(['null', 'afonly', 'tei'])
            vs.append({'t': 'insert', 'at': at, 'k': k, 'pid': rnd_py.choice(pids)})
        for pid in pids:
            vs.append({'t': 'corrupt', 'pid': pid, 'mode': rnd_py.choice(['dropall', 'dropsome', 'garbage', 'tei', 'badaf', 'badaf'])})
        for pid in [q for q in pids if q == 0 or q in (s.get('pmtpids') or [])][:2]:
            # an exact copy of the packet completing the PID's last table, adjacent to it in one multiplex and behind a null packet in another
            vs.append({'t': 'dupadj', 'pid': pid})
            vs.append({'t': 'dupsep', 'pid': pid})
        for pid in pids[:3]:
            # the input ends between two packets of the PID, then goes on
            vs.append({'t': 'resumeadj', 'pid': pid})
            vs.append({'t': 'resumesep', 'pid': pid})
        es = sorted({p['pid'] for p in s['pkts'] if p.get('k', '') == '' and p['pid'] >= 0x100 and p['pid'] != 0x1000 and p['pid'] != 0x1001})
        free = [q for q in (0x14, 0x13, 0x12, 0x11, 0x10) if q not in pids]
        if es and free:
            # a PAT-shaped section on another PID than 0 naming an elementary PID as a program map PID: that PID's output is unchanged
            vs.append({'t': 'foreignpat', 'pid': free[0], 'at': rnd_py.choice(es)})
        if es:
            # ... and a PAT on PID 0 whose program_number 0 entry (the network PID) names an elementary PID
            vs.append({'t': 'foreignpat', 'pid': 0, 'k': 'nit', 'at': rnd_py.choice(es)})
        if n >= 4 and len(scs) % (40 if quick else 10) == 7:
            # very long gaps between two packets of every PID: more null packets than any 16-bit packet count holds, once and twice over
            for cnt in (70000, 140000):
                vs.append({'t': 'insert', 'at': rnd_py.randrange(1, n), 'k': 'null', 'pid': pids[0], 'n': cnt})
            # ... and 140 000 different packets of a foreign PID that never starts a unit (all of them pending at once)
            vs.append({'t': 'insert', 'at': rnd_py.randrange(1, n), 'k': 'headless', 'pid': 0x1abd, 'n': 140000})
        s['variants'] = vs
        s['kind'] = 'merge'
        scs.append(s)
    nvar = sum(len(s['variants']) for s in scs)
    return pipeline(
        ctx, 'Mon_C07', 'merge', scs,
        rule='scenario = stream + variants (order-preserving merges enumerated by TLC (Merge.tla) for the stream\'s packet-count vector, or seeded random '
             'merges for large streams; a null/adaptation-only/transport-error packet inserted at every position; one corruption per PID: drop all, '
             'drop some, garbage payloads, transport_error); each variant demuxed by the real Demuxer, base order three times',
        extra_cov={'variants_run': nvar + 3 * len(scs), 'streams_with_all_merges_enumerated_or_sampled_from_TLC': exhaustive_sets},
        assumptions=['PAT and PMT PIDs are merged as one sequence (a PMT is recognised only after its PAT)', 'delivered data compared by digest of the whole DemuxerData'])


def run_c19(ctx):
    import random
    build_harness(ctx)
    quick = ctx.tier == 'quick'
    rp = random.Random(ctx.seed)
    model_check(ctx, 'MC_Demux', 'Demux_c02_psi.cfg')
    clean = demux_scenarios(ctx, ['Demux_gen_psi_quick.cfg', 'Demux_gen_pes_quick.cfg'], 'sg', sample=400 if quick else 10000)
    rnd = harness_gen(ctx, 'demux', 150 if quick else 5000, ctx.seed, 3)
    scs = []
    for s in clean + rnd:
        pids = sorted({p['pid'] for p in s['pkts']})
        preds = ['all', 'none', 'pusi', 'nopusi', 'cceven', 'rai', 'haf', 'random', 'pid:%d' % rp.choice(pids)]
        for pr in (rp.sample(preds, 3) if quick else preds):
            v = dict(s)
            v['skip'] = pr
            v['kind'] = 'skip'
            v['sid'] = '%s-%s' % (s['sid'], pr.replace(':', ''))
            scs.append(v)
    if scs:
        scs[0] = dict(scs[0], run=dict(scs[0].get('run') or {}, api='longskip'))     # one scenario also runs the long skipped runs
    return pipeline(
        ctx, 'Mon_C19', 'skip', scs,
        rule='scenario = well-formed stream x skip predicate {all, none, pusi, nopusi, cc even, rai flag, has AF, random per packet, by PID}; each '
             'scenario: base run, skipper run, filtered-stream run, observer parser run, replacing parser run, failing parser run on the real Demuxer',
        assumptions=['the filtered stream is built by evaluating the predicate on the reference multiplexer\'s own packet descriptions',
                     'failing-parser runs are recorded but only judged for termination (the EOF drain logs instead of returning parser errors)'])


def run_c20(ctx):
    build_harness(ctx)
    quick = ctx.tier == 'quick'
    # Rewind in the model: after any number of packets read and items taken, pool and data buffer replaced, program map kept
    model_check(ctx, 'MC_Demux', 'Demux_c20_quick.cfg' if quick else 'Demux_c20.cfg', workers=8)
    clean = demux_scenarios(ctx, ['Demux_gen_psi_quick.cfg', 'Demux_gen_pes_quick.cfg'], 'rg', sample=250 if quick else 8000)
    rnd = harness_gen(ctx, 'demux', 60 if quick else 3000, ctx.seed, 3)
    # streams whose PMT-PID units may precede the PAT announcing them: nothing learnt before the Rewind may be left
    early = harness_gen(ctx, 'demux', 40 if quick else 1500, ctx.seed + 4242, 3, opt='earlypmt')
    for s in early:
        s['sid'] = 'e' + s['sid']
    rnd += early + demux_scenarios(ctx, ['Demux_gen_early_quick.cfg'], 're', sample=200 if quick else 5000)
    scs = []
    for j, s in enumerate(clean + rnd):
        for psize in ((0, -1) if len(s['pkts']) >= 1 else (0,)):
            v = dict(s)
            v['kind'] = 'rewind'
            v['run'] = {'psize': psize, 'api': 'all' if (not quick or j % 4 == 0) else 'sample'}
            v['sid'] = '%s-%s' % (s['sid'], 'auto' if psize == -1 else 'x188')
            scs.append(v)
    return pipeline(
        ctx, 'Mon_C20', 'rewind', scs,
        rule='scenario = well-formed stream (PAT before PMT) x {explicit 188, auto-detected packet size}; per scenario: every number k of NextData '
             'calls before Rewind (0..total+1; sampled to 10 for 3/4 of the quick scenarios), NextPacket counts over the packet range, one mixed and '
             'one double-rewind plan; each compared with a fresh Demuxer',
        assumptions=['streams whose PAT precedes their PMTs (the program map is kept across Rewind on purpose)',
                     'auto-detection needs two packets: single-packet streams run with explicit size only'])


def reader_models(ctx):
    for cfg in ('Reader_ideal.cfg', 'Reader_explicit.cfg'):
        model_check(ctx, 'Reader', cfg, workers=4)


def reader_conformance(ctx):
    """code -> model: every NextPacket call of a real Demuxer over npk frames of S bytes (+ a truncated one), per reader kind, explicit /
    auto-detected size and short-read schedule, must be a result Reader!Call allows in the state reached (trace specification Mon_Reader)"""
    scheds = {'full': [], 'one': [1], 'seven': [7], 'hundred': [100], 'mix': [1, 193, 2, 188, 5], 's189': [189], 's192': [192]}
    if ctx.tier != 'quick':
        scheds.update({'two': [2], 's187': [187], 's188': [188], 's193': [193], 's194': [194], 'mix2': [3, 190, 1, 1, 400]})
    scs = []
    for S in (188, 189, 190, 191, 192, 204):
        for kind in ('seek', 'bufio', 'plain'):
            for npk in ((0, 1, 2, 3, 5) if ctx.tier == 'quick' else (0, 1, 2, 3, 4, 5, 8, 17)):
                for extra in (0, 1, 100, 187):
                    for auto in (True, False):
                        if auto and S > 192:
                            continue
                        for name, sch in scheds.items():
                            scs.append({'sid': 'rm-%d' % len(scs), 'kind': 'rmodel', 'S': S, 'rkind': kind, 'npk': npk, 'extra': extra, 'auto': auto,
                                        'sched': sch, 'schedname': name, 'cancel': -1 if len(scs) % 3 else (len(scs) // 3) % (npk + 3)})
    return ('rmodel', scs, '', 'Mon_Reader')


def run_c08(ctx):
    build_harness(ctx)
    quick = ctx.tier == 'quick'
    reader_models(ctx)
    clean = demux_scenarios(ctx, ['Demux_gen_psi_quick.cfg', 'Demux_gen_pes_quick.cfg'], 'cg', sample=6 if quick else 120)
    rnd = harness_gen(ctx, 'demux', 8 if quick else 120, ctx.seed, 3)
    scs = []
    for s in clean + rnd:
        v = dict(s)
        v['kind'] = 'reader'
        scs.append(v)
        if len(scs) % 5 == 1:
            # the same stream behind a null packet ending in 0x47 (a sync-like byte between the two sync bytes of 189..192-byte frames)
            g = dict(s)
            g['kind'] = 'reader'
            g['sid'] = s['sid'] + '-g'
            g['run'] = {'api': 'gtail'}
            scs.append(g)
        # a variant whose second packet has a 0x47 byte in its header (PID 0x147 / 0x747): a legal stream in which bytes 189..192 look like
        # sync bytes to the packet size detection
        idx = [i for i, p in enumerate(s['pkts']) if p.get('pid') in (0x147, 0x747) and p.get('k', '') == '']
        if idx and idx[0] > 1:
            w = dict(s)
            pk = list(s['pkts'])
            first = pk.pop(idx[0])
            pk.insert(1, first)
            w['pkts'] = pk
            w['kind'] = 'reader'
            w['sid'] = s['sid'] + '-s47'
            scs.append(w)
    return pipeline(
        ctx, 'Mon_C08', 'reader', scs, opt='' if quick else 'deep', more=[reader_conformance(ctx)],
        rule='scenario = stream; per scenario a fixed family of configurations: reader kind {bytes.Reader, bufio, plain, short-read (seekable / not / under '
             'bufio)} x schedule {full, fixed chunk sizes (13 quick / 1..400 thorough), a boundary at sampled/every offset of the first 400 bytes, random} '
             'x {explicit, auto} x frame size {188..192, 204, 250}; each through NextPacket and NextData, compared with the reference run',
        assumptions=['auto-detection needs two packets and no 0x47 among bytes 188..size-1 of the first frame (configurations outside are not run)',
                     'auto-detection on a reader that is neither seekable nor a bufio.Reader loses packets by documented design: such runs are only compared with each other'])


def run_c03(ctx):
    build_harness(ctx)
    quick = ctx.tier == 'quick'
    reader_models(ctx)
    clean = demux_scenarios(ctx, ['Demux_gen_psi_quick.cfg', 'Demux_gen_pes_quick.cfg'], 'bg', sample=16 if quick else 400)
    rnd = harness_gen(ctx, 'demux', 14 if quick else 300, ctx.seed, 2)
    scs = []
    for j, s in enumerate(clean + rnd):
        v = dict(s)
        v['kind'] = 'robust'
        # the sections-with-typed-descriptors inputs are added to every fourth scenario (quick) / every scenario (thorough)
        v['run'] = {'api': '' if (not quick or j % 4 == 0) else 'notyped'}
        scs.append(v)
    return pipeline(
        ctx, 'Mon_C03', 'robust', scs, opt='' if quick else 'deep', more=[reader_conformance(ctx)],
        rule='scenario = well-formed stream; per scenario the harness derives inputs: the stream itself, empty input, every length-like field the layouts '
             'declare (pointer_field, section_length, program_info/ES_info/descriptor loop lengths, descriptor_length, PES_packet_length, '
             'PES_header_data_length, adaptation_field_length) set to {0, 1, true-1, true+1, max}, inconsistent adaptation flags, truncation at every '
             'offset of the last packet and sampled offsets, random byte corruption, garbage with/without sync bytes; plus a stream of PAT/PMT/SDT/NIT/EIT/TOT '
             'sections carrying descriptors of every supported kind with every descriptor_length / loop length / section_length mutated (CRC stale '
             'and recomputed); each input x configurations '
             '{auto,188,192,204,189} x {bytes.Reader, bufio, plain, 1-byte reads} x {NextPacket, NextData} (5 sampled per malformed input in quick)',
        assumptions=['bound on calls before ErrNoMorePackets: |input| + 2', 'a call that does not return within 20 s is a hang'])


# ------------------------------------------------------------------ C18: I/O failures surfaced

def run_c18(ctx):
    build_harness(ctx)
    quick = ctx.tier == 'quick'
    model_check(ctx, 'Writer', 'Writer_ideal.cfg')
    reader_models(ctx)
    scs = harness_gen(ctx, 'muxfault', 12 if quick else 120, ctx.seed, 4)
    clean = demux_scenarios(ctx, ['Demux_gen_psi_quick.cfg', 'Demux_gen_pes_quick.cfg'], 'fg', sample=10 if quick else 200)
    rnd = harness_gen(ctx, 'demux', 6 if quick else 100, ctx.seed, 2)
    rscs = []
    for s in clean + rnd:
        v = dict(s)
        v['kind'] = 'rfault'
        rscs.append(v)
    return pipeline(
        ctx, 'Mon_C18', 'mux', scs, more=[('rfault', rscs, '' if quick else 'deep')],
        rule='fault enumeration. Writer: for each base muxer history (last packet needing 0/1/2/3/many stuffing bytes, WriteTables, WritePacket) one run '
             'per index of the writer\'s Write calls x {one-shot, permanent}. Reader: for each stream x {explicit, auto} x {NextData, NextPacket} one run per '
             'byte offset (every offset of streams <= 600 bytes and of the first 400 bytes, sampled beyond; every offset in thorough) x {partial read before '
             'the failure, none} x {seekable, not}; distinct by (history/stream, index/offset, mode)',
        exhaustive=False,
        assumptions=['per-call reading of "byte count no larger than what the writer accepted"',
                     'reader half: deliveries before the failing call are compared with the fault-free run of the same configuration'])


# ------------------------------------------------------------------ codec properties
def run_c10(ctx):
    build_harness(ctx)
    quick = ctx.tier == 'quick'
    model_check(ctx, 'CRCProps', 'CRCProps.cfg', workers=4)
    scs = [{'sid': 'crc-table', 'kind': 'crc', 'part': 'table', 'seed': ctx.seed}, {'sid': 'crc-long', 'kind': 'crc', 'part': 'long', 'seed': ctx.seed}]
    nb = 4 if quick else 16
    for i in range(nb):
        scs.append({'sid': 'crc-basis-%d' % i, 'kind': 'crc', 'part': 'basis', 'seed': ctx.seed + i, 'n': 40 if quick else 400})
    for i in range(2 if quick else 16):
        scs.append({'sid': 'crc-pieces-%d' % i, 'kind': 'crc', 'part': 'pieces', 'seed': ctx.seed * 17 + i, 'n': 60 if quick else 600})
    # all messages of length 0..2: 1 + 256 + 65536 = 65793 indices
    hi = 65793 if not quick else 257 + 4096
    step = 2048
    for lo in range(0, hi, step):
        scs.append({'sid': 'crc-short-%d' % lo, 'kind': 'crc', 'part': 'short', 'seed': ctx.seed, 'lo': lo, 'hi': min(hi, lo + step)})
    for i in range(16 if quick else 64):
        scs.append({'sid': 'crc-msgs-%d' % i, 'kind': 'crc', 'part': 'msgs', 'seed': ctx.seed * 131 + i, 'n': 12 if quick else 320, 'max': 512 if quick else 4096})
    return pipeline(
        ctx, 'Mon_C10', 'crc', scs,
        rule='all 256 table entries; single-step (state, byte) pairs for the zero state, the 32 single-bit states and all-ones x all 256 bytes (an affine '
             'map over GF(2) is determined by these) plus seeded random states; every message of length 0..2 (quick: 0..1 and the first 4096 of length 2); '
             'seeded random messages up to 512 B (quick) / 4 KiB with every split point; each value recomputed bit by bit by TLC',
        exhaustive=False,
        assumptions=['the 2^32 x 256 single-step space is covered by a GF(2)-basis of states plus random states, not enumerated (DESIGN.md 6)'])


def ranged(part, lo, hi, chunk, seed, step=1, prefix='dvb'):
    out = []
    for a in range(lo, hi, chunk):
        out.append({'sid': '%s-%s-%d' % (prefix, part, a), 'kind': prefix, 'part': part, 'seed': seed, 'lo': a, 'hi': min(hi, a + chunk), 'step': step})
    return out


def run_c15(ctx):
    build_harness(ctx)
    quick = ctx.tier == 'quick'
    model_check(ctx, 'DVBWalk', 'DVBWalk.cfg', workers=1)      # Annex C integer formulas = calendar walk on all 50 457 days
    sd = ctx.seed
    scs = []
    scs += ranged('days', 15079, 65536, 2048, sd)
    scs += ranged('times', 0, 86400, 5400, sd, step=5 if quick else 1)
    scs += ranged('encdays', 15079, 65536, 4096, sd, step=3 if quick else 1)
    scs += ranged('enctimes', 0, 86400, 10800, sd, step=11 if quick else 1)
    scs += [{'sid': 'dvb-enchist-%d' % i, 'kind': 'dvb', 'part': 'enchist', 'seed': sd * 31 + i, 'lo': 0, 'hi': 300 if quick else 3000} for i in range(4 if quick else 16)]
    scs += ranged('dur16', 0, 10000, 2500, sd)
    scs += ranged('dur24', 0, 1000000, 62500, sd, step=13 if quick else 1)
    scs += ranged('raw16', 0, 65536, 8192, sd)
    scs += ranged('raw24', 0, 1 << 24, 1 << 20, sd, step=997 if quick else 5)
    scs += ranged('wdur', 0, 360000, 22500, sd, step=37 if quick else 1)
    return pipeline(
        ctx, 'Mon_C15', 'dvb', scs,
        rule='decode: every MJD 15079..65535 at 00:00:00, 12:45:00, 23:59:59; every 5th (quick) / every second of the day on 7 days; encode: every 3rd '
             '(quick) / every day at 3 times followed by its neighbouring days and the day again, random walks over neighbouring days with decodes interleaved, every 11th / every second on 4 days; all 10^4 hh:mm and every 13th / all 10^6 hh:mm:ss BCD durations; all '
             '2^16 and every 997th / 5th of the 2^24 raw patterns; duration encoding for every 37th / every value up to 99:59:59. Expected values by '
             'TLC from the Annex C integer formulas (validated against a calendar walk) and digit-wise BCD',
        exhaustive=False,
        assumptions=['encoding is checked for UTC time.Time values', 'for raw (non-BCD) nibbles the digit-wise value hi*10+lo is the definition'])


def run_c11(ctx):
    build_harness(ctx)
    quick = ctx.tier == 'quick'
    model_check(ctx, 'TSRoundTrip', 'TSRoundTrip.cfg', workers=8)
    sd = ctx.seed
    scs = ranged('pids', 0, 8192, 1024 if quick else 512, sd, prefix='ts')
    scs = [s for i, s in enumerate(scs)] if not quick else scs[::4] + ranged('pids', 0, 64, 64, sd + 1, prefix='ts')[:0]
    for part, n in (('special', 1), ('hdr', 1), ('afsubsets', 2 if quick else 12), ('aflen', 1), ('clock', 1), ('priv', 1)):
        scs.append({'sid': 'ts-%s' % part, 'kind': 'ts', 'part': part, 'seed': sd, 'n': n})
    for i in range(8 if quick else 64):
        scs.append({'sid': 'ts-random-%d' % i, 'kind': 'ts', 'part': 'random', 'seed': sd * 977 + i, 'n': 250 if quick else 2000})
    for i in range(4 if quick else 32):
        scs.append({'sid': 'ts-stream-%d' % i, 'kind': 'ts', 'part': 'stream', 'seed': sd * 983 + i, 'n': 25 if quick else 120})
    return pipeline(
        ctx, 'Mon_C11', 'ts', scs,
        rule='packet values: PIDs (every 4th 1024-block in quick / all 8192) with random other header fields; 16 counters x 4 scrambling values x 8 flag '
             'triples x adaptation_field_control {01,10,11}; every subset of the 5 optional AF parts x 3 extension parts; every AF size 1..184; '
             'PCR/OPCR/seamless-splice DTS at every single-bit value, 0 and all-ones, 9-bit extensions, 22-bit rate, 15-bit LTW offset, all 256 splice '
             'countdowns; private data 0..181 bytes; seeded random packets; histories: packets written by one Muxer between WriteTables / WriteData calls '
             'and read back by one Demuxer whose PacketSkipper drops some. Each value: real WritePacket bytes = TSEncode!Encode(value) (TLC), real '
             'NextPacket of those bytes = value, re-emission byte-identical',
        assumptions=['parse direction uses the bytes the real writer produced once TLC has confirmed they are the reference encoding'])


def run_c12(ctx):
    build_harness(ctx)
    quick = ctx.tier == 'quick'
    model_check(ctx, 'PESProps', 'PESProps.cfg', workers=4)
    sd = ctx.seed
    scs = []
    for part, n in (('sids', 1), ('flags', 1), ('clocks', 40 if quick else 2000), ('trick', 1), ('crc', 60 if quick else 3000), ('ext', 1),
                    ('lengths', 60 if quick else 1500)):
        scs.append({'sid': 'pes-%s' % part, 'kind': 'pes', 'part': part, 'seed': sd, 'n': n})
    for i in range(8 if quick else 64):
        scs.append({'sid': 'pes-random-%d' % i, 'kind': 'pes', 'part': 'random', 'seed': sd * 613 + i, 'n': 200 if quick else 1500})
    for i in range(6 if quick else 60):
        scs.append({'sid': 'pes-stream-%d' % i, 'kind': 'pes', 'part': 'stream', 'seed': sd * 419 + i, 'n': 6 if quick else 20})
        scs.append({'sid': 'pes-remux-%d' % i, 'kind': 'pes', 'part': 'remux', 'seed': sd * 421 + i, 'n': 8 if quick else 30})
    return pipeline(
        ctx, 'Mon_C12', 'pes', scs,
        rule='header values: all 256 stream ids; all 2^8 combinations of the second flags byte x extension-flag subsets; the 64 combinations of the '
             'first flags byte; PTS, DTS, ESCR at 0, all-ones, every single-bit value and seeded random values, 9-bit ESCR extensions; ES rate single '
             'bits; all 256 trick-mode bytes; CRC single-bit/random values; extension-2 length 0..127; P-STD size bits; header stuffing 0..32; '
             'PES_packet_length 0 / exact / shorter / longer and the 65535 limit; Duration() for every clock value. Writer bytes = '
             'PESEncode!Encode(value) (TLC); parser on reference bytes (writer-confirmed or twin-built and TLC-re-derived) = value',
        assumptions=['HasCRC / pack header are not requested from the writer (documented unsupported); they are parsed from twin-built reference bytes',
                     'Duration() / Time(): floor of the sum in nanoseconds', 'pack_header_field is outside the statement'])


DESC_KINDS = ['ac3', 'avc', 'component', 'content', 'dsa', 'eac3', 'extevent', 'extension', 'extensionsa', 'iso639', 'lto', 'maxbitrate', 'netname',
              'parental', 'pdi', 'pds', 'registration', 'service', 'shortevent', 'streamid', 'subtitling', 'teletext', 'vbiteletext', 'vbidata', 'unknown', 'user']


def run_c14(ctx):
    build_harness(ctx)
    quick = ctx.tier == 'quick'
    model_check(ctx, 'DescProps', 'DescProps.cfg', workers=4)
    sd = ctx.seed
    scs = []
    for k in DESC_KINDS:
        scs.append({'sid': 'desc-%s' % k, 'kind': 'desc', 'part': 'pertag', 'tag': k, 'seed': sd, 'n': 120 if quick else 2500})
    for i in range(8 if quick else 64):
        scs.append({'sid': 'desc-loops-%d' % i, 'kind': 'desc', 'part': 'loops', 'seed': sd * 71 + i, 'n': 120 if quick else 600})
        scs.append({'sid': 'desc-mal-%d' % i, 'kind': 'desc', 'part': 'malformed', 'seed': sd * 73 + i, 'n': 150 if quick else 800})
    return pipeline(
        ctx, 'Mon_C14', 'desc', scs,
        rule='per tag (23 typed descriptors incl. both teletext tags and the supplementary-audio extension, unknown tags, user-defined): seeded values with '
             'every flag random, numeric fields at 0 / max / single-bit / random, variable parts of length 0, 1, mid, max-fit, 0..6 loop items, the '
             'struct Length set correctly / to 0 / wrongly; loops of 0..4 mixed descriptors; malformed middle descriptors (shorter, longer, zero) with '
             'sentinels. Writer bytes = Descriptors!LoopWithLength(values) (TLC); parser on those bytes = values',
        assumptions=['a descriptor whose body is empty parses to a descriptor without typed body (equal to the value with zero items)',
                     'ISO 639 language descriptor: one (language, audio type) entry, as the library models it'])


TABLE_KINDS = ['pat', 'pmt', 'sdt', 'nit', 'eit', 'tot']


def run_c13(ctx):
    build_harness(ctx)
    quick = ctx.tier == 'quick'
    model_check(ctx, 'PSIProps', 'PSIProps.cfg', workers=4)
    sd = ctx.seed
    scs = []
    for k in TABLE_KINDS:
        for i in range(2 if quick else 16):
            scs.append({'sid': 'psi-tables-%s-%d' % (k, i), 'kind': 'psi', 'part': 'tables', 'k': k, 'seed': sd * 31 + i, 'n': 60 if quick else 400})
            scs.append({'sid': 'psi-units-%s-%d' % (k, i), 'kind': 'psi', 'part': 'units', 'k': k, 'seed': sd * 37 + i, 'n': 25 if quick else 150})
        scs.append({'sid': 'psi-large-%s' % k, 'kind': 'psi', 'part': 'large', 'k': k, 'seed': sd, 'n': 6 if quick else 60})
    for i in range(4 if quick else 32):
        scs.append({'sid': 'psi-writer-%d' % i, 'kind': 'psi', 'part': 'writer', 'seed': sd * 41 + i, 'n': 80 if quick else 500})
        scs.append({'sid': 'psi-muxer-%d' % i, 'kind': 'psi', 'part': 'muxer', 'seed': sd * 43 + i, 'n': 40 if quick else 300})
    return pipeline(
        ctx, 'Mon_C13', 'psi', scs,
        rule='table models per kind (PAT, PMT, SDT, NIT, EIT, TOT; table_id variants 0x40/41, 0x42/46, 0x4E-0x6F, 0x73): 0..3 loop entries with '
             'identifier fields at 0 / max / single-bit / random, header fields (private bit, version, current/next, section numbers) random, 0..2 '
             'descriptors of any supported kind per loop; units of 1..3 sections with pointer fields and trailing stuffing; large tables up to the '
             '1021 / 4093-byte limits; writePSIData for PAT/PMT with arbitrary header fields; the PAT/PMT the Muxer emits for 1..4 streams with '
             'descriptors. Reference bytes and expected fields by TLC (PSI.tla, Descriptors.tla, CRC32.tla)',
        assumptions=['descriptor loops inside twin-built sections come from the real descriptor writer, which C14 judges against Descriptors.tla; TLC '
                     're-derives every twin-built unit before it is used'])


def run_c09(ctx):
    build_harness(ctx)
    quick = ctx.tier == 'quick'
    model_check(ctx, 'CRCProps', 'CRCProps.cfg', workers=4)
    model_check(ctx, 'PSIProps', 'PSIProps.cfg', workers=2)
    sd = ctx.seed
    scs = []
    for k in TABLE_KINDS:
        for i in range(4 if quick else 48):
            scs.append({'sid': 'psi-corrupt-%s-%d' % (k, i), 'kind': 'psi', 'part': 'corrupt', 'k': k, 'seed': sd * 47 + i, 'n': 3 if quick else 8})
    for i in range(8 if quick else 64):
        scs.append({'sid': 'psi-muxer-%d' % i, 'kind': 'psi', 'part': 'muxer', 'seed': sd * 53 + i, 'n': 60 if quick else 400})
    return pipeline(
        ctx, 'Mon_C09', 'psi', scs,
        rule='corruption: seeded one-packet units of 1..2 sections per table kind x every single-bit flip of every byte (exhaustive per unit), 12 byte '
             'substitutions, 12 bursts of 2..32 bits, 8 truncations, 4 extensions, each demuxed by the real Demuxer and judged against the TLA+ '
             'reference decoder (bitwise CRC); muxer: PAT/PMT payloads emitted by the real Muxer for 1..4 streams with descriptors of every supported '
             'kind whose struct Length is correct, 0 or wrong',
        assumptions=['weak reading of "outcome equals the reference decoder\'s": never an altered table; all tables when the reference decoder accepts the '
                     'whole faulted unit; an error or nothing otherwise (DESIGN.md 7)', 'CRC-32 detects every burst of <= 32 bits, so the enumerated fault classes have no probabilistic escape'])


def run_c16(ctx):
    build_harness(ctx)
    race = build_harness(ctx, race=True)
    quick = ctx.tier == 'quick'
    model_check(ctx, 'MC_Pool', 'Pool_ideal.cfg')
    scs = []
    for i in range(16 if quick else 160):
        scs.append({'sid': 'alias-%d' % i, 'kind': 'alias', 'seed': ctx.seed * 101 + i, 'streams': [1, 2, 3, 5][i % 4], 'conc': [2, 4, 8, 16, 32, 64][i % 6]})
    return pipeline(
        ctx, 'Mon_C16', 'alias', scs, binary=race,
        rule='scenario = (seed, number of interleaved demuxers 1..5, number of concurrent workers 2..64); sequential part: every Packet / DemuxerData '
             'returned by seeded random streams gets a handle, its digest is re-taken after each of the next 8 results and at the end, its byte ranges '
             'are compared with the pool items used in the call and the read buffer; muxer payload digests before/after 30 WriteData calls; '
             'concurrent part: each worker (demux a stream, mux a history) alone and with all workers at once, built with -race',
        assumptions=['"without data races" is observed by the Go race detector (a runtime observer, not TLA+); its report count is judged by the monitor',
                     'aliasing is judged at return time against the pool items used during that call and the instance\'s read buffer (live objects only)'])


PROPS = {
    'C01': lambda ctx: run_mux_family(ctx, 'C01'),
    'C04': lambda ctx: run_mux_family(ctx, 'C04'),
    'C05': lambda ctx: run_mux_family(ctx, 'C05'),
    'C17': lambda ctx: run_mux_family(ctx, 'C17'),
    'C18': run_c18,
    'C02': run_c02,
    'C06': run_c06,
    'C07': run_c07,
    'C19': run_c19,
    'C20': run_c20,
    'C08': run_c08,
    'C03': run_c03,
    'C10': run_c10,
    'C15': run_c15,
    'C11': run_c11,
    'C12': run_c12,
    'C14': run_c14,
    'C13': run_c13,
    'C09': run_c09,
    'C16': run_c16,
}
