"""Generic engine of /verif/check: BUILD -> MODEL -> GEN -> RUN -> JUDGE -> CLASSIFY -> evidence.

Verdict rules (DESIGN.md 2.3): a VIOLATION is printed only when a TLC monitor flags a trace recorded from the
real code, the single scenario re-run reproduces it, and it is not a listed known finding.  Every machinery
failure (build, TLC error, timeout, trace not fully consumed, unreproduced violation) is exit 2.
"""
import concurrent.futures as cf
import hashlib
import itertools
import json
import os
import re
import shutil
import subprocess
import sys
import time

ROOT = os.path.dirname(os.path.dirname(os.path.abspath(__file__)))
SPEC = os.path.join(ROOT, 'spec')
HARNESS = os.path.join(ROOT, 'harness')
JAR = '/opt/veriftools/tla/tla2tools.jar:/opt/veriftools/tla/CommunityModules-deps.jar'
NCPU = os.cpu_count() or 4
_CTR = itertools.count(1)
GOENV = dict(os.environ, GOFLAGS='-mod=mod', GOPROXY='off', GOSUMDB='off', GOTOOLCHAIN='local')


class Machinery(Exception):
    """a failure of the checking machinery itself (never a verdict about the code)"""


def log(*a):
    print(*a, flush=True)


class Ctx:
    def __init__(self, prop, tier, seed, keep=False):
        self.prop, self.tier, self.seed, self.keep = prop, tier, seed, keep
        self.t0 = time.time()
        self.work = os.path.join(ROOT, '.work', '%s-%s-%d' % (prop, tier, os.getpid()))
        shutil.rmtree(self.work, ignore_errors=True)
        os.makedirs(self.work)
        self.specdir = os.path.join(self.work, 'spec')
        shutil.copytree(SPEC, self.specdir)
        self.harness = os.path.join(self.work, 'harness')
        self.stats = {'states': 0, 'transitions': 0, 'model_runs': [], 'gen_runs': []}

    def path(self, name):
        return os.path.join(self.work, name)

    def cleanup(self):
        if not self.keep:
            shutil.rmtree(self.work, ignore_errors=True)


# ---------------------------------------------------------------- build

def build_harness(ctx, race=False):
    src = HARNESS
    repo = os.environ.get('VERIF_REPO', '/repo')
    if repo != '/repo':
        # mutation testing only (tools/matrix.py): the harness is built in the work directory against a scratch copy of the
        # library; the registered commands never set VERIF_REPO and build against /repo's working tree
        src = ctx.path('harness-src')
        if not os.path.isdir(src):
            shutil.copytree(HARNESS, src)
            with open(os.path.join(src, 'go.mod')) as f:
                gm = f.read().replace('=> /repo', '=> ' + repo)
            with open(os.path.join(src, 'go.mod'), 'w') as f:
                f.write(gm)
    shutil.copy(os.path.join(repo, 'go.sum'), os.path.join(src, 'go.sum'))
    cmd = ['go', 'build', '-tags', 'verif']
    if race:
        cmd.append('-race')
    if os.environ.get('VERIF_COVER'):
        # tools/coverage.sh only: statement coverage of the library under the conformance harness (GOCOVERDIR collects it)
        cmd += ['-cover', '-coverpkg=github.com/asticode/go-astits,verif/harness']
    out = ctx.harness + ('-race' if race else '')
    cmd += ['-o', out, '.']
    p = subprocess.run(cmd, cwd=src, env=GOENV, capture_output=True, text=True)
    if p.returncode != 0:
        raise Machinery('harness build failed (the tree under /repo does not compile with -tags verif?):\n' + p.stdout + p.stderr)
    return out


# ---------------------------------------------------------------- TLC

def tlc(ctx, spec, cfg_text, name, workers=1, timeout=900, heap='4g', extra=()):
    """run TLC on spec (module name) with the given cfg text in the scratch copy; returns (stdout path, rc)"""
    k = next(_CTR)
    cfg = os.path.join(ctx.specdir, '%s_%d.cfg' % (name, k))
    with open(cfg, 'w') as f:
        f.write(cfg_text)
    out = ctx.path('%s_%d.out' % (name, k))
    md = ctx.path('md_%s_%d' % (name, k))
    jtmp = ctx.path('jtmp')         # TLC leaves a tlc-<n> directory per run in java.io.tmpdir: keep them inside the work directory
    os.makedirs(jtmp, exist_ok=True)
    cmd = ['java', '-XX:+UseParallelGC', '-Xmx' + heap, '-Xss64m', '-Djava.io.tmpdir=' + jtmp, '-cp', JAR, 'tlc2.TLC', '-workers', str(workers),
           '-metadir', md, '-config', cfg] + list(extra) + [os.path.join(ctx.specdir, spec + '.tla')]
    with open(out, 'w') as fo:
        try:
            p = subprocess.run(cmd, cwd=ctx.specdir, stdout=fo, stderr=subprocess.STDOUT, timeout=timeout)
            rc = p.returncode
        except subprocess.TimeoutExpired:
            raise Machinery('TLC timeout after %ds on %s (%s)' % (timeout, spec, name))
    shutil.rmtree(md, ignore_errors=True)
    return out, rc


def read_cfg(name):
    with open(os.path.join(SPEC, name)) as f:
        return f.read()


_STAT = re.compile(r'(\d+) states generated, (\d+) distinct states found')


def tlc_stats(out):
    gen = dist = 0
    with open(out, errors='replace') as f:
        for line in f:
            m = _STAT.search(line)
            if m:
                gen, dist = int(m.group(1)), int(m.group(2))
    return gen, dist


def tlc_errors(out):
    errs = []
    with open(out, errors='replace') as f:
        for line in f:
            if line.startswith('Error:') or 'is violated' in line or 'Exception' in line or 'StackOverflow' in line:
                errs.append(line.strip())
    return errs


def model_check(ctx, spec, cfgname, workers=NCPU, timeout=1800, expect_ok=True):
    """design-level check of the system model (ideal deviations): must pass, else the *specification* is wrong -> exit 2"""
    out, rc = tlc(ctx, spec, read_cfg(cfgname), 'model_' + spec, workers=workers, timeout=timeout, heap='12g')
    gen, dist = tlc_stats(out)
    errs = tlc_errors(out)
    ctx.stats['states'] += dist
    ctx.stats['transitions'] += gen
    ctx.stats['model_runs'].append({'spec': spec, 'cfg': cfgname, 'distinct_states': dist, 'states_generated': gen, 'ok': not errs})
    log('MODEL %s/%s: %d distinct states, %d generated, %s' % (spec, cfgname, dist, gen, 'ok' if not errs else 'ERRORS'))
    if expect_ok and (errs or dist == 0):
        raise Machinery('model check of %s with %s failed: %s (see %s)' % (spec, cfgname, errs[:3], out))
    return out, errs


def apalache_inductive(ctx, spec, init='Init', indinit='IndInit', inv='IndInv', timeout=180, what='unbounded payload lengths'):
    """unbounded lemma: Init => Inv (length 0) and IndInit /\\ Next => Inv' (length 1), discharged by Apalache"""
    d = ctx.path('apa_%s_%d' % (spec, next(_CTR)))
    os.makedirs(d)
    shutil.copy(os.path.join(ctx.specdir, spec + '.tla'), d)
    res = []
    for ini, length in ((init, 0), (indinit, 1)):
        cmd = ['apalache-mc', 'check', '--init=' + ini, '--inv=' + inv, '--length=%d' % length, spec + '.tla']
        try:
            p = subprocess.run(cmd, cwd=d, capture_output=True, text=True, timeout=timeout)
        except subprocess.TimeoutExpired:
            raise Machinery('Apalache timeout on %s' % spec)
        ok = 'EXITCODE: OK' in p.stdout
        res.append({'init': ini, 'inv': inv, 'length': length, 'ok': ok})
        if not ok:
            raise Machinery('Apalache could not discharge %s/%s (length %d): %s' % (spec, inv, length, p.stdout[-1500:]))
    shutil.rmtree(d, ignore_errors=True)
    ctx.stats.setdefault('lemmas', []).append({'spec': spec, 'tool': 'apalache-mc 0.58 (inductive invariant: %s)' % what, 'obligations': res})
    log('LEMMA %s: inductive invariant %s discharged by Apalache (%s)' % (spec, inv, what))


def parse_tagged(out, tag):
    """lines printed by TLC as "TAG {json}" (a TLA+ string, i.e. JSON-escaped)"""
    res = []
    pre = '"' + tag + ' '
    with open(out, errors='replace') as f:
        for line in f:
            if line.startswith(pre):
                s = json.loads(line)
                res.append(json.loads(s[len(tag) + 1:]))
    return res


def gen_tlc(ctx, spec, cfgname, tag='SCN', workers=8, timeout=1800, simulate=None):
    extra = []
    if simulate:
        extra = ['-simulate', 'num=%d' % simulate['num'], '-depth', str(simulate['depth']), '-seed', str(ctx.seed)]
        workers = 1
    out, rc = tlc(ctx, spec, read_cfg(cfgname), 'gen_' + spec, workers=workers, timeout=timeout, heap='8g', extra=extra)
    errs = tlc_errors(out)
    if errs:
        raise Machinery('scenario generation %s/%s failed: %s (see %s)' % (spec, cfgname, errs[:3], out))
    scs = parse_tagged(out, tag)
    gen, dist = tlc_stats(out)
    ctx.stats['states'] += dist
    ctx.stats['transitions'] += gen
    ctx.stats['gen_runs'].append({'spec': spec, 'cfg': cfgname, 'scenarios': len(scs), 'distinct_states': dist, 'states_generated': gen,
                                  'simulate': simulate})
    log('GEN %s/%s: %d scenarios (%d distinct states)' % (spec, cfgname, len(scs), dist))
    os.remove(out)
    return scs


# ---------------------------------------------------------------- harness

def harness_gen(ctx, family, n, seed, maxv, opt=''):
    out = ctx.path('rand_%s_%d.ndjson' % (family, seed))
    cmd = [ctx.harness, 'gen', '-family', family, '-n', str(n), '-seed', str(seed), '-max', str(maxv), '-out', out]
    if opt:
        cmd += ['-opt', opt]
    p = subprocess.run(cmd, capture_output=True, text=True, timeout=600)
    if p.returncode != 0:
        raise Machinery('harness gen failed: ' + p.stdout + p.stderr)
    with open(out) as f:
        scs = [json.loads(l) for l in f if l.strip()]
    os.remove(out)
    return scs


def harness_run(ctx, family, scen_path, trace_path, opt='', timeout=1800, binary=None):
    cmd = [binary or ctx.harness, 'run', '-family', family, '-in', scen_path, '-out', trace_path]
    if opt:
        cmd += ['-opt', opt]
    try:
        p = subprocess.run(cmd, capture_output=True, text=True, timeout=timeout)
    except subprocess.TimeoutExpired:
        raise Machinery('harness run timeout (%s)' % family)
    races = p.stderr.count('WARNING: DATA RACE')
    if p.returncode != 0 and not (races and p.returncode == 66):
        raise Machinery('harness run failed rc=%d: %s %s' % (p.returncode, p.stdout[-2000:], p.stderr[-4000:]))
    if family == 'alias':
        # the Go race detector is a runtime observer: its verdict is appended to the trace for the monitor to judge
        with open(trace_path, 'a') as f:
            f.write(json.dumps({'ev': 'race', 'n': races, 'first': p.stderr[:1500] if races else ''}) + '\n')
    return p.stdout


# ---------------------------------------------------------------- judge

def count_lines(path):
    n = 0
    with open(path, 'rb') as f:
        for _ in f:
            n += 1
    return n


JUDGE_PAR = int(os.environ.get('VERIF_JUDGE_PAR', '10'))   # TLC monitors in flight (4 GB heap limit each)
MAX_PART_EVENTS = 120000
MAX_PART_BYTES = 48 << 20


def split_trace(trace_path):
    """cut a recorded trace into parts at scenario boundaries (every monitor starts afresh at a `reset` event), so that the JSON
    one TLC run has to hold stays bounded whatever the tier generates"""
    if os.path.getsize(trace_path) <= MAX_PART_BYTES and count_lines(trace_path) <= MAX_PART_EVENTS:
        return [trace_path]
    parts, out, n, size = [], None, 0, 0
    with open(trace_path, 'rb') as f:
        for line in f:
            if out is None or ((n >= MAX_PART_EVENTS or size >= MAX_PART_BYTES) and b'"ev":"reset"' in line):
                if out:
                    out.close()
                parts.append('%s.part%d' % (trace_path, len(parts)))
                out, n, size = open(parts[-1], 'wb'), 0, 0
            out.write(line)
            n += 1
            size += len(line)
    if out:
        out.close()
    return parts


def judge(ctx, monitor, trace_path, timeout=1800, heap='4g', consts=''):
    """validate one recorded trace file with a monitor; returns the list of violation records"""
    parts = split_trace(trace_path)
    if len(parts) > 1:
        viols, events = [], 0
        for pp in parts:
            v, k = judge(ctx, monitor, pp, timeout, heap, consts)
            viols += v
            events += k
            os.remove(pp)
        return viols, events
    n = count_lines(trace_path)
    if n == 0:
        return [], 0
    cfg = 'SPECIFICATION Spec\nCONSTANT TraceFile = "%s"\n%sCHECK_DEADLOCK FALSE\n' % (trace_path, consts)
    out, rc = tlc(ctx, monitor, cfg, 'judge_' + monitor, workers=1, timeout=timeout, heap=heap)
    viols = parse_tagged(out, 'VIOL')
    done = None
    with open(out, errors='replace') as f:
        for line in f:
            if line.startswith('"DONE '):
                done = int(json.loads(line).split()[1])
    errs = tlc_errors(out)
    if errs or done != n:
        raise Machinery('monitor %s did not consume the trace %s completely (done=%s of %d) errors=%s (see %s)' %
                        (monitor, trace_path, done, n, errs[:3], out))
    os.remove(out)
    return viols, n


def run_and_judge(ctx, family, monitor, scenarios, opt='', shards=None, consts='', binary=None):
    """RUN the scenarios on the real code (sharded), JUDGE every shard with the monitor.  Returns (violations, events)."""
    if not scenarios:
        return [], 0
    k = shards or max(1, min(NCPU, len(scenarios) // 50 + 1))
    parts = [scenarios[i::k] for i in range(k)]
    base = next(_CTR)
    # where every scenario ran (which process, after which others): a violation that needs what an earlier scenario left in the library's
    # process-wide state (the payload pool) is replayed with that history (finish)
    hist = ctx.__dict__.setdefault('hist', {})
    for i, part in enumerate(parts):
        for j, sc_ in enumerate(part):
            hist[id(sc_)] = (part, j)

    def one(i):
        sp = ctx.path('scn_%d_%d.ndjson' % (base, i))
        tp = ctx.path('trace_%d_%d.ndjson' % (base, i))
        with open(sp, 'w') as f:
            for s in parts[i]:
                f.write(json.dumps(s) + '\n')
        harness_run(ctx, family, sp, tp, opt, binary=binary)
        os.remove(sp)
        return tp

    with cf.ThreadPoolExecutor(max_workers=NCPU) as ex:
        traces = list(ex.map(one, range(k)))
    viols, events = judge_many(ctx, monitor, traces, consts)
    return viols, events


def judge_many(ctx, monitor, traces, consts='', keep=False):
    viols, events = [], 0
    with cf.ThreadPoolExecutor(max_workers=min(NCPU, JUDGE_PAR)) as ex:
        for v, n in ex.map(lambda tp: judge(ctx, monitor, tp, consts=consts), traces):
            viols += v
            events += n
    if not keep:
        for tp in traces:
            try:
                os.remove(tp)
            except OSError:
                pass
    return viols, events


# ---------------------------------------------------------------- known findings, classification, evidence

def load_findings(prop):
    path = os.path.join(ROOT, 'known_findings.txt')
    res = []
    if not os.path.exists(path):
        return res
    with open(path) as f:
        for line in f:
            line = line.strip()
            if not line.startswith('finding:'):
                continue
            m = re.match(r'finding:\s+property=(\S+)\s+match=(\{.*?\})\s+what=(.*)$', line)
            if not m:
                raise Machinery('malformed known_findings.txt line: ' + line)
            if m.group(1) == prop:
                res.append({'match': json.loads(m.group(2)), 'what': m.group(3)})
    return res


def matches(v, finding):
    return all(v.get(k) == val for k, val in finding['match'].items())


VOLATILE = ('trace', 'at', 'pkt', 'prop')


def signature(v):
    """what kind of violation this is: the record minus positions and numeric details"""
    return json.dumps({k: v[k] for k in sorted(v) if k not in VOLATILE and isinstance(v[k], (str, bool))}, sort_keys=True)


MAX_CONFIRM = 6


def shape_hash(sc, drop=('sid', 'seed')):
    d = {k: v for k, v in sc.items() if k not in drop}
    return hashlib.sha1(json.dumps(d, sort_keys=True).encode()).hexdigest()


def write_evidence(ctx, level, coverage, violations, assumptions):
    ev = {
        'property_id': ctx.prop, 'tier': ctx.tier, 'seed': ctx.seed, 'level': level,
        'coverage': coverage, 'assumptions': assumptions, 'wall_s': round(time.time() - ctx.t0, 1), 'violations': violations,
    }
    edir = os.path.join(ROOT, 'evidence')
    if os.environ.get('VERIF_REPO', '/repo') != '/repo' or os.environ.get('VERIF_COVER'):
        edir = '/tmp/verif-mutation-evidence'     # a mutation-testing run never touches the committed evidence
    os.makedirs(edir, exist_ok=True)
    with open(os.path.join(edir, ctx.prop + '.json'), 'w') as f:
        json.dump(ev, f, indent=1)


def finish(ctx, family, monitor, by_sid, viols, events, coverage, assumptions, opt='', replay_only=False, consts='', binary=None, retries=1):
    """classify violation records, confirm new ones by replaying their scenario alone, write evidence, return exit code"""
    twin = [v for v in viols if str(v.get('kind', '')).startswith('twin-')]
    if twin:
        raise Machinery('the harness twin encoder disagrees with the TLA+ reference encoding (a defect of the machinery, not of the code): %s' % json.dumps(twin[0]))
    findings = load_findings(ctx.prop)
    known_hit = {}
    new = {}
    for v in viols:
        hit = None
        for fnd in findings:
            if matches(v, fnd):
                hit = fnd
                break
        if hit:
            known_hit.setdefault(hit['what'], []).append(v)
        else:
            new.setdefault(signature(v), []).append(v)
    for what, vs in known_hit.items():
        log('KNOWN-FINDING: property=%s %s (%d occurrence(s) in this run, e.g. trace %s)' % (ctx.prop, what, len(vs), vs[0].get('trace')))
    confirmed = []
    unreproduced = []
    hist0 = dict(ctx.__dict__.get('hist', {}))     # as left by the original run (the replays below register their own)
    rdir = os.path.join(ROOT, 'replays', ctx.prop)
    for sig, vs in sorted(new.items(), key=lambda kv: -len(kv[1])):
        if len(confirmed) >= MAX_CONFIRM:
            log('  (further violation signature not replayed: %s, %d occurrence(s))' % (sig, len(vs)))
            continue
        ok = False
        for v in vs[:3]:
            tr = str(v.get('trace'))
            sc = by_sid.get(tr) or by_sid.get(tr.split('/')[0])
            if sc is None:
                continue
            fam, o, mon = sc.get('_fam', family), sc.get('_opt', opt), sc.get('_mon', monitor)
            hit = False
            for _ in range(retries):
                rv, _ = run_and_judge(ctx, fam, mon, [sc], opt=o, shards=1, consts=consts if mon == monitor else '', binary=binary)
                if any(signature(x) == sig for x in rv):
                    hit = True
                    break
            history = None
            if not hit and id(sc) in hist0:
                # not reproduced alone: once more in one process behind the scenarios that preceded it in the original run (state left in
                # the library's package-level pool by earlier scenarios)
                part, j = hist0[id(sc)]
                history = [x for x in part[:j + 1] if x.get('_fam', family) == fam]
                if 1 < len(history) <= 6000:
                    rv, _ = run_and_judge(ctx, fam, mon, history, opt=o, shards=1, consts=consts if mon == monitor else '', binary=binary)
                    hit = any(signature(x) == sig for x in rv)
                if not hit:
                    history = None
            if hit:
                os.makedirs(rdir, exist_ok=True)
                h = hashlib.sha1((sig + str(sc.get('sid'))).encode()).hexdigest()[:12]
                rp = os.path.join(rdir, '%s.json' % h)
                rec = {'property': ctx.prop, 'family': fam, 'monitor': mon, 'opt': o, 'consts': consts if mon == monitor else '',
                       'scenario': sc, 'violation': v}
                if history:
                    rec['history'] = history      # the scenarios to run before it, in one process
                with open(rp, 'w') as f:
                    json.dump(rec, f, indent=1)
                confirmed.append((v, rp, len(vs)))
                ok = True
                break
        if not ok:
            unreproduced.append(vs[0])
    coverage = dict(coverage)
    coverage['known_findings_hit'] = {k: len(v) for k, v in known_hit.items()}
    coverage['violation_signatures'] = len(new)
    write_evidence(ctx, 'model_checking', coverage, len(confirmed), assumptions)
    for v, rp, n in confirmed:
        log('VIOLATION property=%s replay=%s' % (ctx.prop, rp))
        log('  what: %s (%d occurrence(s))' % (json.dumps({k: v[k] for k in v if k not in ('prop',)}), n))
    if unreproduced:
        log('%s: %d violation signature(s) not reproduced on replay, e.g. %s' % ('NOTE' if confirmed else 'MACHINERY', len(unreproduced), json.dumps(unreproduced[0])))
        if not confirmed:
            return 2          # nothing the verdict could stand on
    return 1 if confirmed else 0
