"""what MANIFEST.json claims per property (tools/mkmanifest.py turns this into the manifest)"""
HOOK_COMMITS = ['9e58bbd']

TRUST = ('Trusted: TLC 1.8 + CommunityModules (Json), the Go toolchain, the harness core (recorder, concretiser, fault wrappers). '
         'Verdicts come only from TLC evaluating the trace specification over traces recorded from the code built from /repo; '
         'model/code drift is informational.')

CLAIMS = {
    'C04': {
        'text': 'Mux.tla (ideal) is model-checked for alignment/PUSI invariants; every transition of its state graph plus seeded long histories are '
                'replayed into the real Muxer; TLC validates each recorded trace with Mon_C04, which decodes every emitted 188-byte packet with a '
                'TLA+ ISO 13818-1 decoder and checks n = bytes delivered and no partial packet after every call (including rejected ones). '
                'Bounded: histories of the stated constants and seeds, not all histories.',
        'note': TRUST, 'technique': 'TLA+ model checking (TLC) + trace validation of real-code traces (Mon_C04)', 'ref': 'DESIGN.md 4 C04'},
    'C05': {
        'text': 'Mux.tla action property C05_CC model-checked; same replay as C04; Mon_C05 tracks the last continuity counter per PID over the '
                'whole recorded output (across calls, failures, removals, wrap-around) and flags any payload packet whose counter is not last+1 mod 16.',
        'note': TRUST, 'technique': 'TLA+ model checking (TLC) + trace validation of real-code traces (Mon_C05)', 'ref': 'DESIGN.md 4 C05'},
    'C17': {
        'text': 'Mux.tla invariants TablesFirst/Period/RAP/Version/AutoPid model-checked; same replay; Mon_C17 replays the configuration calls on its '
                'own abstract state and judges every emitted PAT/PMT (decoded field by field in TLA+) for content, version rule, and every '
                'WriteData for missing/late tables (first, period, RAP on PCR PID).',
        'note': TRUST, 'technique': 'TLA+ model checking (TLC) + trace validation of real-code traces (Mon_C17)', 'ref': 'DESIGN.md 4 C17'},
}
NOT_CLAIMED = {}
