"""what MANIFEST.json claims per property (tools/mkmanifest.py turns this into the manifest)"""
HOOK_COMMITS = ['9e58bbd']

TRUST = ('Trusted: TLC 1.8 + CommunityModules (Json), the Go toolchain, the harness core (recorder, concretiser, fault wrappers). '
         'Verdicts come only from TLC evaluating the trace specification over traces recorded from the code built from /repo; '
         'model/code drift is informational.')

CLAIMS = {
    'C04': {
        'text': 'Mux.tla (ideal) is model-checked for alignment/PUSI invariants; every transition of its state graph plus seeded long histories are '
                'replayed into the real Muxer; TLC validates each recorded trace with Mon_C04, which decodes every emitted 188-byte packet with a '
                'TLA+ ISO 13818-1 decoder and checks n = bytes delivered and no partial packet after every call (including rejected ones). '
                'Bounded: histories of the stated constants and seeds, not all histories.',
        'note': TRUST, 'technique': 'TLA+ model checking (TLC) + trace validation of real-code traces (Mon_C04)', 'ref': 'DESIGN.md 4 C04'},
    'C05': {
        'text': 'Mux.tla action property C05_CC model-checked; same replay as C04; Mon_C05 tracks the last continuity counter per PID over the '
                'whole recorded output (across calls, failures, removals, wrap-around) and flags any payload packet whose counter is not last+1 mod 16.',
        'note': TRUST, 'technique': 'TLA+ model checking (TLC) + trace validation of real-code traces (Mon_C05)', 'ref': 'DESIGN.md 4 C05'},
    'C17': {
        'text': 'Mux.tla invariants TablesFirst/Period/RAP/Version/AutoPid model-checked; same replay; Mon_C17 replays the configuration calls on its '
                'own abstract state and judges every emitted PAT/PMT (decoded field by field in TLA+) for content, version rule, and every '
                'WriteData for missing/late tables (first, period, RAP on PCR PID).',
        'note': TRUST, 'technique': 'TLA+ model checking (TLC) + trace validation of real-code traces (Mon_C17)', 'ref': 'DESIGN.md 4 C17'},
}
CLAIMS['C01'] = {
    'text': 'Every transition of the Mux.tla state graph plus seeded long histories (boundary payload lengths around k*184 +/- header/AF, > 65535, '
            'five PES header classes, seven AF classes, auto/explicit PIDs, remove/re-add) are run through the real Muxer and the bytes through the '
            'real Demuxer; Mon_C01 keeps per-PID FIFOs of successful WriteData calls and of emitted PAT/PMT (with the configuration current at '
            'emission) and requires every delivery to equal the FIFO head (payload digest, projected PES header, first-packet AF), no error, and '
            'empty FIFOs at end of stream.',
    'note': TRUST, 'technique': 'TLA+ model checking (TLC) + trace validation of real-code mux->demux traces (Mon_C01)', 'ref': 'DESIGN.md 4 C01'}
CLAIMS['C18'] = {
    'text': 'Writer.tla models the BitsWriterBatch first-error latch over the call shapes of the code (TLC: a failing Write is always surfaced with '
            'n <= accepted when every segment consults its latch; counterexample for an unchecked segment). Fault enumeration on the real Muxer: '
            'one run per Write-call index x {one-shot, permanent} over histories whose last packet needs 0/1/2/3/many stuffing bytes; Mon_C18 '
            'requires err wrapping the injected cause and n <= accepted for the call in which the fault fired. (Reader half: see evidence.)',
    'note': TRUST, 'technique': 'TLA+ model checking (TLC) + exhaustive fault-position enumeration judged by trace validation (Mon_C18)', 'ref': 'DESIGN.md 4 C18'}
CLAIMS['C02'] = {
    'text': 'Demux.tla (stream generator x demuxer model, length-accurate isPSIComplete/parsePSIData/parsePESData arithmetic) is model-checked for '
            'C02_Carried and C02_NoReadAhead; one stream per transition of its state graph (every split offered at every offset, pointer fields, '
            'multi-section units, interleavings, counter wrap) plus seeded random streams from an independent reference multiplexer are demuxed '
            'by the real Demuxer; Mon_C02 requires per-PID FIFO equality of deliveries and carried units, nothing left at EOF, no error, and '
            'bytes pulled = 188 x index of the final packet for every PAT/PMT. The model\'s predicted delivery sequences are compared with the code '
            '(drift). PacketPool.tla (the packet pool over a free alphabet, isPSIComplete byte for byte) is model-checked and a sample of the streams '
            'plus free-alphabet streams are validated step by step against it (Mon_Acc: accumulator hook decisions, groups handed to parseData, '
            'end-of-stream dump).',
    'note': TRUST, 'technique': 'TLA+ model checking (TLC) + trace validation of real-code demux traces (Mon_C02, Mon_Acc)', 'ref': 'DESIGN.md 4 C02, 13.7'}
CLAIMS['C06'] = {
    'text': 'Demux.tla with a dup/drop channel and a clean twin in lock-step is model-checked for C06_DupHarmless and C06_LossSafe (counterexamples '
            'for the two historical deviations); real runs: TLC fault behaviours, every single duplication and deletion position of clean streams, '
            'seeded multi-fault bursts (<16); each stream is demuxed with and without the faults by the real Demuxer and Mon_C06 judges the two '
            'delivered sequences (identity on PES PIDs under duplicates; every faulted delivery equals a clean unit; only hit units missing). '
            'PacketPool.tla is model-checked (TLC) and its shape lemma discharged by Apalache; the faulted streams, free-alphabet streams and one '
            'behaviour per explored transition of PacketPool.tla are replayed into the real Demuxer and validated against it (Mon_Acc).',
    'note': TRUST, 'technique': 'TLA+ model checking (TLC, Apalache lemma) + exhaustive fault-position enumeration judged by trace validation (Mon_C06, Mon_Acc)', 'ref': 'DESIGN.md 4 C06, 13.7'}
CLAIMS['C03'] = {
    'text': 'Reader.tla models packet-buffer creation, auto-detection (peek / rewind / resync) and per-packet reads against short-read schedules; TLC '
            'proves EndsInBoundedCalls and EOFAbsorbing for the ideal and exhibits the never-ending behaviour of the historical size-0 buffer. Real '
            'runs: model-guided mutations of well-formed streams (every declared length field x {0,1,true-1,true+1,max}, truncations, corruption, '
            'garbage, empty, units of 12..400 contiguous packets) x packet size {auto,188,192,204,189,257,1024} x four reader kinds x {NextPacket, NextData}; Mon_C03 requires no panic, monotone '
            'consumption, ErrNoMorePackets within |input|+2 calls and absorbing. TLA+ does not predict panics: absence is asserted on the inputs run. '
            'Reader.tla is bound to the code: every NextPacket call of 4 620 (quick) reader configurations must be a result Reader!Call allows '
            '(Mon_Reader).',
    'note': TRUST, 'technique': 'TLA+ model checking (TLC) + model-guided input mutation judged by trace validation (Mon_C03, Mon_Reader)', 'ref': 'DESIGN.md 4 C03, 13.7'}
CLAIMS['C07'] = {
    'text': 'Merge.tla enumerates every order-preserving merge of the per-PID packet sequences (TLC, by packet-count vector); for each stream the real '
            'Demuxer is run on the base order (three times), on the TLC-enumerated merges (all, or a seeded sample above a budget), with a '
            'null/adaptation-only/transport-error packet inserted at every position, and with one corruption per PID; Mon_C07 requires every PID\'s '
            'delivered sequence (digest of the whole DemuxerData) to equal the base run\'s, except on the corrupted PID; a PID whose own sequence '
            'holds an exact copy of a table-completing packet delivers the same whether the copy is adjacent or behind a foreign packet, and so does '
            'a PID whose input ends between two of its packets and goes on later; up to 140 000 foreign packets (null, or different and never starting a '
            'unit) between two packets of a PID change nothing.',
    'note': TRUST, 'technique': 'TLA+ enumeration of schedules (TLC) + trace validation of real-code runs (Mon_C07)', 'ref': 'DESIGN.md 4 C07'}
CLAIMS['C08'] = {
    'text': 'Reader.tla (short-read schedules x reader kinds x auto/explicit) model-checked for SameAsFull; counterexample for single-Read peek. Real '
            'runs: each stream through ~190 (quick) / ~3000 (thorough) configurations of reader kind x schedule x explicit/auto x frame size 188..250, '
            'via NextPacket and NextData; Mon_C08 requires equality with the reference run within the classes the statement defines. Reader.tla is '
            'bound to the code: every NextPacket call of 4 620 (quick) configurations must be a result Reader!Call allows (Mon_Reader). '
            'bufio.Readers smaller than a packet are among the readers of the explicit-size configurations.',
    'note': TRUST, 'technique': 'TLA+ model checking (TLC) + configuration enumeration judged by trace validation (Mon_C08, Mon_Reader)', 'ref': 'DESIGN.md 4 C08, 13.7'}
CLAIMS['C19'] = {
    'text': 'For streams generated from Demux.tla and the seeded reference multiplexer, and nine predicate families, the real Demuxer is run with the '
            'skipper, on the filtered stream, with an observing and with a replacing PacketsParser; Mon_C19 requires: callback sequence = stream '
            'packets (once, in order, header/AF parsed), packets and data equal to the filtered stream\'s, observer leaves output unchanged and is '
            'handed each unit once per PID (non-empty, single PID, arrival order), replacing parser\'s data (one or two per unit, with and without first packet) delivered exactly, with the content they had when returned; '
            'runs of more than 65 536 skipped packets and skipped packets with an over-long adaptation_field_length are counted.',
    'note': TRUST, 'technique': 'TLA+-generated scenarios + trace validation of real-code runs (Mon_C19)', 'ref': 'DESIGN.md 4 C19'}
CLAIMS['C20'] = {
    'text': 'For streams generated from Demux.tla and the seeded reference multiplexer x {explicit, auto}: every number k of NextData calls before '
            'Rewind, NextPacket counts, mixed and repeated rewinds on the real Demuxer; Mon_C20 requires Rewind = (0, nil) and the post-rewind '
            'deliveries to equal a fresh Demuxer\'s. Demux.tla models Rewind (pool and data buffer replaced, program map kept): C20_RewindFresh is '
            'model-checked for every consumption point, with counterexamples for a kept data buffer and for PMTs preceding their PAT; on a reader that '
            'cannot seek the absence of residue is checked against a fresh Demuxer over the rest of the input (C20_NoSeekClean); Rewind after a reader '
            'error, with a cancelled context, followed by NextPacket, behind a half-parsed unit and onto new content of another packet size each have '
            'their own reference run.',
    'note': TRUST, 'technique': 'TLA+ model checking (TLC) + TLA+-generated scenarios + exhaustive call-count enumeration judged by trace validation (Mon_C20)', 'ref': 'DESIGN.md 4 C20, 13.7'}
CODEC_NOTE = TRUST + ' Numeric ranges are covered structurally (0, max, every single-bit value, flag subsets, boundary lengths, seeded random), not exhaustively (DESIGN.md 6).'
CLAIMS['C09'] = {
    'text': 'Every single-bit flip (exhaustive per unit), byte substitutions, bursts <= 32 bits, truncations and extensions of seeded units of all six '
            'table kinds are demuxed by the real Demuxer; Mon_C09 recomputes the outcome with an independent TLA+ reference decoder (pointer_field, '
            'table_id, section_length, bitwise CRC-32/MPEG-2) and requires: never an altered table, all tables when the reference accepts the whole '
            'unit, never a table for a section whose CRC_32 the reference rejects (also the right checksum in the wrong byte order); every second bit flip '
            'is also sent as a damaged repetition behind the clean unit through the same Demuxer. Every PAT/PMT payload the real Muxer emits (descriptors of all kinds, struct Length correct/0/wrong) must hold exactly one '
            'section the reference decoder accepts.',
    'note': CODEC_NOTE, 'technique': 'TLA+ reference decoder evaluated by TLC over fault-enumerated real-code traces (Mon_C09)', 'ref': 'DESIGN.md 4 C09'}
CLAIMS['C10'] = {
    'text': 'CRC32.tla defines CRC-32/MPEG-2 bit by bit (check value, pieces = one pass, residue 0 model-checked); Mon_C10 recomputes every value '
            'observed from the real functions: all 256 table entries, single-step pairs for a GF(2)-basis of states x all bytes plus random states, all '
            'messages of length 0..2 (thorough), random messages with every split point, single passes over 64 KB and more, and messages in which the '
            'register\'s own value or a checksum is followed by zeros.',
    'note': CODEC_NOTE, 'technique': 'TLA+ definition evaluated by TLC against values recorded from the real functions (Mon_C10)', 'ref': 'DESIGN.md 4 C10'}
CLAIMS['C11'] = {
    'text': 'TSEncode.tla is the reference bit layout of header + adaptation field (+ extension); for structured and random packet values the real '
            'WritePacket bytes must equal TSEncode!Encode(value), the real NextPacket of those bytes must equal the value, and re-emission must be '
            'byte-identical (Mon_C11); the layout itself is cross-checked against an independent structural decoder (TSRoundTrip).',
    'note': CODEC_NOTE, 'technique': 'TLA+ reference encoding evaluated by TLC over real-code parse/write traces (Mon_C11)', 'ref': 'DESIGN.md 4 C11'}
CLAIMS['C12'] = {
    'text': 'PESEncode.tla is the reference layout of PES headers (PTS/DTS/ESCR/ES rate/trick mode/copy info/CRC/extension fields, stuffing, length '
            'rule) and the exact Duration arithmetic; Mon_C12 requires writer bytes = Encode(value), parser on reference bytes (writer-confirmed or '
            'twin-built and TLC-re-derived) = value, payload boundaries per PES_packet_length, trick-mode decode for all 256 bytes, Duration() and Time() exact; units written through one Muxer '
            '(given / automatic stream ids, payloads of 1 byte .. 48 KB, bounded and unbounded) come back from one Demuxer header for header and byte for byte, '
            'and demuxed units handed back to a Muxer come back unchanged again.',
    'note': CODEC_NOTE, 'technique': 'TLA+ reference encoding evaluated by TLC over real-code parse/write traces (Mon_C12)', 'ref': 'DESIGN.md 4 C12'}
CLAIMS['C13'] = {
    'text': 'PSI.tla encodes PAT/PMT/SDT/NIT/EIT/TOT sections (header, syntax header, loops, descriptor loops, CRC) and is anchored by the ISO sample '
            'PAT/PMT of the repository; Mon_C13 re-derives every twin-built unit, requires parsePSIData and the Demuxer to return the value field '
            'for field (incl. section_length and CRC fields), writePSIData and the Muxer\'s PAT/PMT packets to equal the reference bytes.',
    'note': CODEC_NOTE, 'technique': 'TLA+ reference encoding evaluated by TLC over real-code parse/write traces (Mon_C13)', 'ref': 'DESIGN.md 4 C13'}
CLAIMS['C14'] = {
    'text': 'Descriptors.tla holds 25 descriptor layouts + loop framing, anchored by hand-encoded known vectors; Mon_C14 requires the real '
            'writeDescriptorsWithLength bytes = LoopWithLength(values) and the length calculator = bytes emitted whatever the struct Length holds, '
            'the real parseDescriptors on those bytes = values (loops of up to 1000 descriptors), and after a malformed middle descriptor an error or intact sentinels.',
    'note': CODEC_NOTE, 'technique': 'TLA+ reference encoding evaluated by TLC over real-code parse/write traces (Mon_C14)', 'ref': 'DESIGN.md 4 C14'}
CLAIMS['C15'] = {
    'text': 'DVBTime.tla writes the Annex C formulas in integer arithmetic and DVBWalk.tla checks them against a calendar walk for all 50 457 days '
            '(TLC); Mon_C15 compares the real decoder on every day x 3 times, (every 5th / every) second of the day on 7 days, the real encoder on '
            'days and seconds, all hh:mm and (every 13th / all) hh:mm:ss BCD durations and raw patterns with those definitions; the edge days are also '
            'decoded where a stream carries them (EIT start_time, TOT UTC_time) through the section parser.',
    'note': CODEC_NOTE, 'technique': 'TLA+ calendar model checked by TLC + definitions evaluated over real-code traces (Mon_C15)', 'ref': 'DESIGN.md 4 C15'}
CLAIMS['C16'] = {
    'text': 'Pool.tla models the process-wide bytesPool shared by 3 concurrent instances (read buffer, get / fill / extract / put / return): TLC proves '
            'single holder, release before return and that no returned result shares memory with a pool item or read buffer (3.4 M states; '
            'counterexample for a non-copying extract). Real runs: every returned Packet/DemuxerData is re-digested after later calls and at the end, '
            'its byte ranges are compared with the pool items of the call and the read buffer (verif pool observer), Muxer payload digests, and 2..64 '
            'concurrent workers are compared with their solo results under the Go race detector, instances used in turn (among them one whose units '
            'have no payload, right behind PES users of the pool) deliver what they deliver alone; Mon_C16 judges all of it.',
    'note': TRUST + ' The clause "without data races" is observed by the Go race detector (a runtime observer) whose report count the monitor judges.',
    'technique': 'TLA+ model checking (TLC) + trace validation of real-code aliasing/concurrency traces (Mon_C16)', 'ref': 'DESIGN.md 4 C16'}
NOT_CLAIMED = {}
