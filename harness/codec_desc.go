package main

import (
	"bytes"
	"encoding/json"
	"fmt"
	"reflect"
	"time"

	"github.com/asticode/go-astits"
)

// ---------- C14: descriptors (values, projections, conformance vectors) ----------

func u32w(v uint32) []int { return []int{int(v >> 16), int(v & 0xffff)} }

func projTime(t time.Time) []int {
	t = t.UTC()
	return []int{t.Year(), int(t.Month()), t.Day(), t.Hour(), t.Minute(), t.Second()}
}

// projDescriptor projects a descriptor struct into the record Descriptors.tla encodes
func projDescriptor(d *astits.Descriptor) M {
	m := M{"tag": int(d.Tag), "len": int(d.Length)}
	bs := func(b []byte) []int { return ints(b) }
	switch {
	case d.Tag >= 0x80 && d.Tag <= 0xfe:
		m["k"], m["data"] = "user", bs(d.UserDefined)
	case d.Tag == astits.DescriptorTagAC3 && d.AC3 != nil:
		x := d.AC3
		m["k"] = "ac3"
		m["hct"], m["hbsid"], m["hmain"], m["hasvc"] = x.HasComponentType, x.HasBSID, x.HasMainID, x.HasASVC
		m["ct"], m["bsid"], m["main"], m["asvc"], m["info"] = flagged(x.HasComponentType, x.ComponentType), flagged(x.HasBSID, x.BSID), flagged(x.HasMainID, x.MainID), flagged(x.HasASVC, x.ASVC), bs(x.AdditionalInfo)
	case d.Tag == astits.DescriptorTagEnhancedAC3 && d.EnhancedAC3 != nil:
		x := d.EnhancedAC3
		m["k"] = "eac3"
		m["hct"], m["hbsid"], m["hmain"], m["hasvc"], m["mix"] = x.HasComponentType, x.HasBSID, x.HasMainID, x.HasASVC, x.MixInfoExists
		m["hs1"], m["hs2"], m["hs3"] = x.HasSubStream1, x.HasSubStream2, x.HasSubStream3
		m["ct"], m["bsid"], m["main"], m["asvc"] = flagged(x.HasComponentType, x.ComponentType), flagged(x.HasBSID, x.BSID), flagged(x.HasMainID, x.MainID), flagged(x.HasASVC, x.ASVC)
		m["s1"], m["s2"], m["s3"], m["info"] = flagged(x.HasSubStream1, x.SubStream1), flagged(x.HasSubStream2, x.SubStream2), flagged(x.HasSubStream3, x.SubStream3), bs(x.AdditionalInfo)
	case d.Tag == astits.DescriptorTagAVCVideo && d.AVCVideo != nil:
		x := d.AVCVideo
		m["k"] = "avc"
		m["profile"], m["c0"], m["c1"], m["c2"], m["compat"] = int(x.ProfileIDC), x.ConstraintSet0Flag, x.ConstraintSet1Flag, x.ConstraintSet2Flag, int(x.CompatibleFlags)
		m["level"], m["still"], m["h24"] = int(x.LevelIDC), x.AVCStillPresent, x.AVC24HourPictureFlag
	case d.Tag == astits.DescriptorTagComponent && d.Component != nil:
		x := d.Component
		m["k"] = "component"
		m["scext"], m["sc"], m["ctype"], m["ctag"], m["lang"], m["text"] = int(x.StreamContentExt), int(x.StreamContent), int(x.ComponentType), int(x.ComponentTag), bs(x.ISO639LanguageCode), bs(x.Text)
	case d.Tag == astits.DescriptorTagContent && d.Content != nil:
		m["k"] = "content"
		items := [][]int{}
		for _, it := range d.Content.Items {
			items = append(items, []int{int(it.ContentNibbleLevel1), int(it.ContentNibbleLevel2), int(it.UserByte)})
		}
		m["items"] = items
	case d.Tag == astits.DescriptorTagDataStreamAlignment && d.DataStreamAlignment != nil:
		m["k"], m["type"] = "dsa", int(d.DataStreamAlignment.Type)
	case d.Tag == astits.DescriptorTagExtendedEvent && d.ExtendedEvent != nil:
		x := d.ExtendedEvent
		m["k"] = "extevent"
		m["num"], m["last"], m["lang"], m["text"] = int(x.Number), int(x.LastDescriptorNumber), bs(x.ISO639LanguageCode), bs(x.Text)
		items := []M{}
		for _, it := range x.Items {
			items = append(items, M{"desc": bs(it.Description), "content": bs(it.Content)})
		}
		m["items"] = items
	case d.Tag == astits.DescriptorTagExtension && d.Extension != nil:
		x := d.Extension
		m["k"], m["xtag"] = "extension", int(x.Tag)
		m["mix"], m["edit"], m["hlang"], m["lang"], m["priv"], m["data"] = false, 0, false, []int{}, []int{}, []int{}
		if x.Tag == astits.DescriptorTagExtensionSupplementaryAudio && x.SupplementaryAudio != nil {
			sa := x.SupplementaryAudio
			m["mix"], m["edit"], m["hlang"], m["priv"] = sa.MixType, int(sa.EditorialClassification), sa.HasLanguageCode, bs(sa.PrivateData)
			if sa.HasLanguageCode {
				m["lang"] = bs(sa.LanguageCode)
			}
		} else if x.Unknown != nil {
			m["data"] = bs(*x.Unknown)
		}
	case d.Tag == astits.DescriptorTagISO639LanguageAndAudioType && d.ISO639LanguageAndAudioType != nil:
		m["k"], m["lang"], m["type"] = "iso639", bs(d.ISO639LanguageAndAudioType.Language), int(d.ISO639LanguageAndAudioType.Type)
	case d.Tag == astits.DescriptorTagLocalTimeOffset && d.LocalTimeOffset != nil:
		m["k"] = "lto"
		items := []M{}
		for _, it := range d.LocalTimeOffset.Items {
			items = append(items, M{"country": bs(it.CountryCode), "region": int(it.CountryRegionID), "pol": it.LocalTimeOffsetPolarity,
				"off": int(it.LocalTimeOffset / time.Minute), "toc": projTime(it.TimeOfChange), "next": int(it.NextTimeOffset / time.Minute)})
		}
		m["items"] = items
	case d.Tag == astits.DescriptorTagMaximumBitrate && d.MaximumBitrate != nil:
		m["k"], m["rate"] = "maxbitrate", int(d.MaximumBitrate.Bitrate)
	case d.Tag == astits.DescriptorTagNetworkName && d.NetworkName != nil:
		m["k"], m["name"] = "netname", bs(d.NetworkName.Name)
	case d.Tag == astits.DescriptorTagParentalRating && d.ParentalRating != nil:
		m["k"] = "parental"
		items := [][]interface{}{}
		for _, it := range d.ParentalRating.Items {
			items = append(items, []interface{}{bs(it.CountryCode), int(it.Rating)})
		}
		m["items"] = items
	case d.Tag == astits.DescriptorTagPrivateDataIndicator && d.PrivateDataIndicator != nil:
		m["k"], m["v"] = "pdi", u32w(d.PrivateDataIndicator.Indicator)
	case d.Tag == astits.DescriptorTagPrivateDataSpecifier && d.PrivateDataSpecifier != nil:
		m["k"], m["v"] = "pds", u32w(d.PrivateDataSpecifier.Specifier)
	case d.Tag == astits.DescriptorTagRegistration && d.Registration != nil:
		m["k"], m["fid"], m["info"] = "registration", u32w(d.Registration.FormatIdentifier), bs(d.Registration.AdditionalIdentificationInfo)
	case d.Tag == astits.DescriptorTagService && d.Service != nil:
		m["k"], m["type"], m["provider"], m["name"] = "service", int(d.Service.Type), bs(d.Service.Provider), bs(d.Service.Name)
	case d.Tag == astits.DescriptorTagShortEvent && d.ShortEvent != nil:
		m["k"], m["lang"], m["name"], m["text"] = "shortevent", bs(d.ShortEvent.Language), bs(d.ShortEvent.EventName), bs(d.ShortEvent.Text)
	case d.Tag == astits.DescriptorTagStreamIdentifier && d.StreamIdentifier != nil:
		m["k"], m["ctag"] = "streamid", int(d.StreamIdentifier.ComponentTag)
	case d.Tag == astits.DescriptorTagSubtitling && d.Subtitling != nil:
		m["k"] = "subtitling"
		items := []M{}
		for _, it := range d.Subtitling.Items {
			items = append(items, M{"lang": bs(it.Language), "type": int(it.Type), "comp": int(it.CompositionPageID), "anc": int(it.AncillaryPageID)})
		}
		m["items"] = items
	case (d.Tag == astits.DescriptorTagTeletext && d.Teletext != nil) || (d.Tag == astits.DescriptorTagVBITeletext && d.VBITeletext != nil):
		t := d.Teletext
		if d.Tag == astits.DescriptorTagVBITeletext {
			t = d.VBITeletext
		}
		m["k"] = "teletext"
		items := []M{}
		for _, it := range t.Items {
			items = append(items, M{"lang": bs(it.Language), "type": int(it.Type), "mag": int(it.Magazine), "page": int(it.Page)})
		}
		m["items"] = items
	case d.Tag == astits.DescriptorTagVBIData && d.VBIData != nil:
		m["k"] = "vbidata"
		svcs := []M{}
		for _, s := range d.VBIData.Services {
			lines := [][]interface{}{}
			for _, l := range s.Descriptors {
				lines = append(lines, []interface{}{l.FieldParity, int(l.LineOffset)})
			}
			svcs = append(svcs, M{"id": int(s.DataServiceID), "lines": lines})
		}
		m["services"] = svcs
	case d.Unknown != nil:
		m["k"], m["data"] = "unknown", bs(d.Unknown.Content)
	default:
		m["k"] = "empty" // a descriptor of length 0: no body was parsed
	}
	return m
}

// flagged: a field guarded by a flag means something only when the flag is set
func flagged(f bool, v uint8) int {
	if f {
		return int(v)
	}
	return 0
}

func projDescriptors(ds []*astits.Descriptor) []M {
	out := []M{}
	for _, d := range ds {
		out = append(out, projDescriptor(d))
	}
	return out
}

var descKinds = []string{"ac3", "avc", "component", "content", "dsa", "eac3", "extevent", "extension", "extensionsa", "iso639", "lto", "maxbitrate",
	"netname", "parental", "pdi", "pds", "registration", "service", "shortevent", "streamid", "subtitling", "teletext", "vbiteletext", "vbidata", "unknown", "user"}

// edge picks a value for an n-bit field: 0, max, a single bit or random
func edge(r *rng, bits int) int {
	max := 1<<uint(bits) - 1
	switch r.intn(4) {
	case 0:
		return 0
	case 1:
		return max
	case 2:
		return 1 << uint(r.intn(bits))
	}
	return r.intn(max + 1)
}

func lang(r *rng) []byte {
	return []byte{byte('a' + r.intn(26)), byte('a' + r.intn(26)), byte('a' + r.intn(26))}
}

// varBytes: a variable part of length 0, 1, mid, or up to max
func varBytes(r *rng, max int) []byte {
	if max < 0 {
		max = 0
	}
	n := r.pick(0, 1, 2, r.intn(max+1), r.intn(max+1), max)
	if n > max {
		n = max
	}
	return r.bytes(n)
}

// randDescriptor builds a descriptor of the kind whose body fits in budget bytes (<= 255)
func randDescriptor(r *rng, kind string, budget int) *astits.Descriptor {
	if budget > 255 {
		budget = 255
	}
	d := &astits.Descriptor{}
	nitems := func(size int) int {
		maxn := budget / size
		if maxn > 6 {
			maxn = 6
		}
		return r.pick(0, 1, 1, 2, 3, maxn) % (maxn + 1)
	}
	switch kind {
	case "user":
		d.Tag = uint8(0x80 + r.intn(0x7f))
		d.UserDefined = varBytes(r, budget)
		if len(d.UserDefined) == 0 {
			d.UserDefined = nil
		}
	case "unknown":
		d.Tag = uint8(r.pick(0x01, 0x02, 0x03, 0x09, 0x41, 0x43, 0x53, 0x66, 0x7e))
		d.Unknown = &astits.DescriptorUnknown{Tag: d.Tag, Content: varBytes(r, budget)}
	case "ac3":
		d.Tag = astits.DescriptorTagAC3
		x := &astits.DescriptorAC3{HasComponentType: r.boolean(), HasBSID: r.boolean(), HasMainID: r.boolean(), HasASVC: r.boolean()}
		x.ComponentType, x.BSID, x.MainID, x.ASVC = uint8(edge(r, 8)), uint8(edge(r, 8)), uint8(edge(r, 8)), uint8(edge(r, 8))
		x.AdditionalInfo = varBytes(r, budget-5)
		d.AC3 = x
	case "eac3":
		d.Tag = astits.DescriptorTagEnhancedAC3
		x := &astits.DescriptorEnhancedAC3{HasComponentType: r.boolean(), HasBSID: r.boolean(), HasMainID: r.boolean(), HasASVC: r.boolean(),
			MixInfoExists: r.boolean(), HasSubStream1: r.boolean(), HasSubStream2: r.boolean(), HasSubStream3: r.boolean()}
		x.ComponentType, x.BSID, x.MainID, x.ASVC = uint8(edge(r, 8)), uint8(edge(r, 8)), uint8(edge(r, 8)), uint8(edge(r, 8))
		x.SubStream1, x.SubStream2, x.SubStream3 = uint8(edge(r, 8)), uint8(edge(r, 8)), uint8(edge(r, 8))
		x.AdditionalInfo = varBytes(r, budget-8)
		d.EnhancedAC3 = x
	case "avc":
		d.Tag = astits.DescriptorTagAVCVideo
		d.AVCVideo = &astits.DescriptorAVCVideo{ProfileIDC: uint8(edge(r, 8)), ConstraintSet0Flag: r.boolean(), ConstraintSet1Flag: r.boolean(), ConstraintSet2Flag: r.boolean(),
			CompatibleFlags: uint8(edge(r, 5)), LevelIDC: uint8(edge(r, 8)), AVCStillPresent: r.boolean(), AVC24HourPictureFlag: r.boolean()}
	case "component":
		d.Tag = astits.DescriptorTagComponent
		d.Component = &astits.DescriptorComponent{StreamContentExt: uint8(edge(r, 4)), StreamContent: uint8(edge(r, 4)), ComponentType: uint8(edge(r, 8)),
			ComponentTag: uint8(edge(r, 8)), ISO639LanguageCode: lang(r), Text: varBytes(r, budget-6)}
	case "content":
		d.Tag = astits.DescriptorTagContent
		x := &astits.DescriptorContent{}
		for i, n := 0, nitems(2); i < n; i++ {
			x.Items = append(x.Items, &astits.DescriptorContentItem{ContentNibbleLevel1: uint8(edge(r, 4)), ContentNibbleLevel2: uint8(edge(r, 4)), UserByte: uint8(edge(r, 8))})
		}
		d.Content = x
	case "dsa":
		d.Tag = astits.DescriptorTagDataStreamAlignment
		d.DataStreamAlignment = &astits.DescriptorDataStreamAlignment{Type: uint8(edge(r, 8))}
	case "extevent":
		d.Tag = astits.DescriptorTagExtendedEvent
		x := &astits.DescriptorExtendedEvent{Number: uint8(edge(r, 4)), LastDescriptorNumber: uint8(edge(r, 4)), ISO639LanguageCode: lang(r)}
		left := budget - 6
		for i, n := 0, r.pick(0, 1, 2, 3); i < n && left > 2; i++ {
			it := &astits.DescriptorExtendedEventItem{Description: varBytes(r, (left-2)/2), Content: varBytes(r, (left-2)/2)}
			left -= 2 + len(it.Description) + len(it.Content)
			x.Items = append(x.Items, it)
		}
		x.Text = varBytes(r, left)
		d.ExtendedEvent = x
	case "extension":
		d.Tag = astits.DescriptorTagExtension
		u := varBytes(r, budget-1)
		d.Extension = &astits.DescriptorExtension{Tag: uint8(r.pick(0x00, 0x04, 0x05, 0x07, 0x10, 0xff)), Unknown: &u}
	case "extensionsa":
		d.Tag = astits.DescriptorTagExtension
		sa := &astits.DescriptorExtensionSupplementaryAudio{MixType: r.boolean(), EditorialClassification: uint8(edge(r, 5)), HasLanguageCode: r.boolean()}
		if sa.HasLanguageCode || r.boolean() { // a code left behind in a value whose flag is cleared is not part of the value
			sa.LanguageCode = lang(r)
		}
		sa.PrivateData = varBytes(r, budget-5)
		d.Extension = &astits.DescriptorExtension{Tag: astits.DescriptorTagExtensionSupplementaryAudio, SupplementaryAudio: sa}
	case "iso639":
		d.Tag = astits.DescriptorTagISO639LanguageAndAudioType
		d.ISO639LanguageAndAudioType = &astits.DescriptorISO639LanguageAndAudioType{Language: lang(r), Type: uint8(edge(r, 8))}
	case "lto":
		d.Tag = astits.DescriptorTagLocalTimeOffset
		x := &astits.DescriptorLocalTimeOffset{}
		for i, n := 0, nitems(13); i < n; i++ {
			day := 15079 + r.intn(50457)
			x.Items = append(x.Items, &astits.DescriptorLocalTimeOffsetItem{CountryCode: lang(r), CountryRegionID: uint8(edge(r, 6)), LocalTimeOffsetPolarity: r.boolean(),
				LocalTimeOffset: time.Duration(r.intn(24)*60+r.intn(60)) * time.Minute,
				TimeOfChange:    time.Date(1900, 3, 1, r.intn(24), r.intn(60), r.intn(60), 0, time.UTC).AddDate(0, 0, day-15079),
				NextTimeOffset:  time.Duration(r.intn(24)*60+r.intn(60)) * time.Minute})
			if r.intn(4) == 0 {
				// the ends of the range, to the last nanosecond: the first and the last day, the last second of a day with a fraction
				it := x.Items[len(x.Items)-1]
				switch r.intn(3) {
				case 0:
					it.TimeOfChange = time.Date(2038, 4, 22, 23, 59, 59, r.pick(0, 1, 500000000, 999999999), time.UTC)
				case 1:
					it.TimeOfChange = time.Date(1900, 3, 1, 0, 0, 0, r.pick(0, 1, 999999999), time.UTC)
				default:
					it.TimeOfChange = it.TimeOfChange.Add(time.Duration(r.pick(1, 499999999, 999999999)))
				}
			}
		}
		d.LocalTimeOffset = x
	case "maxbitrate":
		d.Tag = astits.DescriptorTagMaximumBitrate
		d.MaximumBitrate = &astits.DescriptorMaximumBitrate{Bitrate: uint32(edge(r, 22)) * 50}
	case "netname":
		d.Tag = astits.DescriptorTagNetworkName
		d.NetworkName = &astits.DescriptorNetworkName{Name: varBytes(r, budget)}
	case "parental":
		d.Tag = astits.DescriptorTagParentalRating
		x := &astits.DescriptorParentalRating{}
		for i, n := 0, nitems(4); i < n; i++ {
			x.Items = append(x.Items, &astits.DescriptorParentalRatingItem{CountryCode: lang(r), Rating: uint8(edge(r, 8))})
		}
		d.ParentalRating = x
	case "pdi":
		d.Tag = astits.DescriptorTagPrivateDataIndicator
		d.PrivateDataIndicator = &astits.DescriptorPrivateDataIndicator{Indicator: uint32(edge(r, 16))<<16 | uint32(edge(r, 16))}
	case "pds":
		d.Tag = astits.DescriptorTagPrivateDataSpecifier
		d.PrivateDataSpecifier = &astits.DescriptorPrivateDataSpecifier{Specifier: uint32(edge(r, 16))<<16 | uint32(edge(r, 16))}
	case "registration":
		d.Tag = astits.DescriptorTagRegistration
		d.Registration = &astits.DescriptorRegistration{FormatIdentifier: uint32(edge(r, 16))<<16 | uint32(edge(r, 16)), AdditionalIdentificationInfo: varBytes(r, budget-4)}
	case "service":
		d.Tag = astits.DescriptorTagService
		p := varBytes(r, (budget-3)/2)
		d.Service = &astits.DescriptorService{Type: uint8(edge(r, 8)), Provider: p, Name: varBytes(r, budget-3-len(p))}
	case "shortevent":
		d.Tag = astits.DescriptorTagShortEvent
		n := varBytes(r, (budget-5)/2)
		d.ShortEvent = &astits.DescriptorShortEvent{Language: lang(r), EventName: n, Text: varBytes(r, budget-5-len(n))}
	case "streamid":
		d.Tag = astits.DescriptorTagStreamIdentifier
		d.StreamIdentifier = &astits.DescriptorStreamIdentifier{ComponentTag: uint8(edge(r, 8))}
	case "subtitling":
		d.Tag = astits.DescriptorTagSubtitling
		x := &astits.DescriptorSubtitling{}
		for i, n := 0, nitems(8); i < n; i++ {
			x.Items = append(x.Items, &astits.DescriptorSubtitlingItem{Language: lang(r), Type: uint8(edge(r, 8)), CompositionPageID: uint16(edge(r, 16)), AncillaryPageID: uint16(edge(r, 16))})
		}
		d.Subtitling = x
	case "teletext", "vbiteletext":
		x := &astits.DescriptorTeletext{}
		for i, n := 0, nitems(5); i < n; i++ {
			x.Items = append(x.Items, &astits.DescriptorTeletextItem{Language: lang(r), Type: uint8(edge(r, 5)), Magazine: uint8(edge(r, 3)), Page: uint8(r.intn(10)*10 + r.intn(10))})
		}
		if kind == "teletext" {
			d.Tag, d.Teletext = astits.DescriptorTagTeletext, x
		} else {
			d.Tag, d.VBITeletext = astits.DescriptorTagVBITeletext, x
		}
	case "vbidata":
		d.Tag = astits.DescriptorTagVBIData
		x := &astits.DescriptorVBIData{}
		left := budget
		for i, n := 0, r.pick(0, 1, 2, 3); i < n && left > 6; i++ {
			s := &astits.DescriptorVBIDataService{DataServiceID: uint8(r.pick(1, 2, 4, 5, 6, 7, 1, 4, 0, 3, 8, 255, r.intn(256)))}
			reserved := s.DataServiceID == 0 || s.DataServiceID == 3 || s.DataServiceID > 7 // one reserved byte, no lines (Descriptors.tla VBIService)
			if reserved {
				left--
			}
			for j, k := 0, r.pick(0, 1, 2, 3, 4); j < k && !reserved; j++ {
				s.Descriptors = append(s.Descriptors, &astits.DescriptorVBIDataDescriptor{FieldParity: r.boolean(), LineOffset: uint8(edge(r, 5))})
			}
			left -= 2 + len(s.Descriptors)
			x.Services = append(x.Services, s)
		}
		d.VBIData = x
	default:
		fatal("unknown descriptor kind %q", kind)
	}
	return d
}

// bodyLen is the true body length of a descriptor the generator built (independent of the library's calc functions):
// computed by writing the descriptor alone is not possible without the library, so the generator sets Length from the
// reference encoding's arithmetic below
func setLength(d *astits.Descriptor, mode string, r *rng) {
	switch mode {
	case "zero":
		d.Length = 0
	case "wrong":
		d.Length = uint8(1 + r.intn(250))
	default:
		// "correct": any non-zero plausible value; the writers must not depend on it (the monitor never uses it)
		d.Length = uint8(1 + r.intn(200))
	}
}

type descScenario struct {
	SID  string `json:"sid"`
	Kind string `json:"kind"`
	Seed uint64 `json:"seed"`
	Part string `json:"part"` // pertag | loops | malformed
	N    int    `json:"n"`
	Tag  string `json:"tag,omitempty"`
}

// scramble inverts every byte (an involution: twice restores)
func scramble(b []byte) {
	for i := range b {
		b[i] ^= 0xff
	}
}

// scrambleValue inverts every byte of every byte slice reachable from v
func scrambleValue(v reflect.Value, depth int) {
	if depth > 12 {
		return
	}
	switch v.Kind() {
	case reflect.Ptr, reflect.Interface:
		if !v.IsNil() {
			scrambleValue(v.Elem(), depth+1)
		}
	case reflect.Struct:
		if v.Type().PkgPath() == "time" {
			return
		}
		for i := 0; i < v.NumField(); i++ {
			if v.Type().Field(i).PkgPath == "" {
				scrambleValue(v.Field(i), depth+1)
			}
		}
	case reflect.Slice:
		if v.Type().Elem().Kind() == reflect.Uint8 {
			if v.Len() > 0 && v.Index(0).CanSet() {
				scramble(v.Bytes())
			}
			return
		}
		for i := 0; i < v.Len(); i++ {
			scrambleValue(v.Index(i), depth+1)
		}
	}
}

func descVec(rec *recorder, class string, ds []*astits.Descriptor, writeOnly ...bool) []byte {
	v := projDescriptors(ds)
	var wb []byte
	var n int
	var err error
	if pn := safeCall(func() { wb, n, err = astits.VerifWriteDescriptorsWithLength(ds) }); pn != nil {
		err = fmt.Errorf("panic %v", pn)
	}
	e := M{"ev": "dvec", "class": class, "ds": v, "wb": ints(wb), "wn": n, "werr": errStr(err), "got": []M{}, "gerr": "none", "goff": -1,
		"calc": int(astits.VerifCalcDescriptorsLength(ds))}
	if len(writeOnly) > 0 && writeOnly[0] {
		e["wonly"] = true // a value outside what a parser yields back unchanged (a language code that is not 3 bytes): the write direction only
		rec.ev(e)
		return wb
	}
	if err == nil {
		var got []*astits.Descriptor
		var off int
		var gerr error
		if pn := safeCall(func() { got, off, gerr = astits.VerifParseDescriptors(wb) }); pn != nil {
			gerr = fmt.Errorf("panic %v", pn)
		}
		e["gerr"], e["goff"] = errStr(gerr), off
		scramble(wb) // the parsed value owns its bytes: what happens to the input afterwards is none of its business
		if gerr == nil {
			e["got"] = projDescriptors(got)
		}
		scramble(wb)
		// ... and what the caller does to a parsed value is none of the next parse's business: every byte slice of the first result
		// is overwritten, then the same bytes are parsed again
		if gerr == nil {
			scrambleValue(reflect.ValueOf(got), 0)
			var got2 []*astits.Descriptor
			var gerr2 error
			if pn := safeCall(func() { got2, _, gerr2 = astits.VerifParseDescriptors(wb) }); pn != nil {
				gerr2 = fmt.Errorf("panic %v", pn)
			}
			e["got2"] = []M{}
			if gerr2 == nil {
				e["got2"] = projDescriptors(got2)
			}
		}
	}
	rec.ev(e)
	return wb
}

func runDesc(line []byte, rec *recorder) {
	var sc descScenario
	if err := json.Unmarshal(line, &sc); err != nil {
		fatal("bad desc scenario: %v", err)
	}
	rec.ev(M{"ev": "reset", "t": sc.SID, "kind": "desc", "part": sc.Part})
	r := newRng(sc.Seed ^ hashStr(sc.SID))
	modes := []string{"correct", "correct", "zero", "wrong"}
	switch sc.Part {
	case "pertag":
		for i := 0; i < sc.N; i++ {
			d := randDescriptor(r, sc.Tag, r.pick(255, 255, 60, 20))
			setLength(d, modes[i%4], r)
			wb := descVec(rec, sc.Tag, []*astits.Descriptor{d})
			if sc.Tag == "vbidata" && len(wb) > 4 && wb[2] == 0x45 {
				// the same descriptor as another multiplexer may write it: the two reserved bits of every line entry at 00 / 01 / 10 instead
				// of 11 - a decoder ignores reserved bits
				alt := append([]byte(nil), wb...)
				for p := 4; p+1 < len(alt); {
					id, n := alt[p], int(alt[p+1])
					for j := p + 2; j < p+2+n && j < len(alt); j++ {
						if id == 1 || id == 2 || id == 4 || id == 5 || id == 6 || id == 7 {
							alt[j] = alt[j]&0x3f | byte(r.intn(3))<<6
						}
					}
					p += 2 + n
				}
				var got []*astits.Descriptor
				var off int
				var gerr error
				if pn := safeCall(func() { got, off, gerr = astits.VerifParseDescriptors(alt) }); pn != nil {
					gerr = fmt.Errorf("panic %v", pn)
				}
				e := M{"ev": "dvec", "class": "vbidata-reserved-bits", "ds": projDescriptors([]*astits.Descriptor{d}), "wb": ints(wb), "wn": len(wb), "werr": "nil",
					"got": []M{}, "gerr": errStr(gerr), "goff": off, "calc": len(wb) - 2}
				if gerr == nil {
					e["got"] = projDescriptors(got)
				}
				rec.ev(e)
				// ... and with the reserved bytes of a service of a reserved data_service_id in another number than the one byte this library
				// writes (0, 2 or 3 - the service's length byte says how many): the services behind it stay where they are
				alt2 := append([]byte(nil), wb[:4]...)
				changed := false
				for p := 4; p+1 < len(wb); {
					id, n := wb[p], int(wb[p+1])
					if !(id == 1 || id == 2 || id == 4 || id == 5 || id == 6 || id == 7) && n == 1 {
						k := r.pick(0, 2, 3)
						alt2 = append(append(alt2, id, byte(k)), bytes.Repeat([]byte{0xff}, k)...)
						changed = true
					} else {
						alt2 = append(alt2, wb[p:p+2+n]...)
					}
					p += 2 + n
				}
				if changed && len(alt2)-4 <= 255 {
					alt2[3] = byte(len(alt2) - 4)
					alt2[0], alt2[1] = 0xf0|byte((len(alt2)-2)>>8), byte(len(alt2)-2)
					var got2 []*astits.Descriptor
					var off2 int
					var gerr2 error
					if pn := safeCall(func() { got2, off2, gerr2 = astits.VerifParseDescriptors(alt2) }); pn != nil {
						gerr2 = fmt.Errorf("panic %v", pn)
					}
					if gerr2 == nil && off2 == len(alt2) {
						off2 = len(wb) // (the offset rule compares with the reference encoding's length)
					}
					e2 := M{"ev": "dvec", "class": "vbidata-reserved-service-bytes", "ds": projDescriptors([]*astits.Descriptor{d}), "wb": ints(wb), "wn": len(wb), "werr": "nil",
						"got": []M{}, "gerr": errStr(gerr2), "goff": off2, "calc": len(wb) - 2}
					if gerr2 == nil {
						pg := projDescriptors(got2)
						if len(pg) == 1 {
							pg[0]["len"] = int(wb[3]) // (this vector's descriptor_length differs from the reference encoding's on purpose)
						}
						e2["got"] = pg
					}
					rec.ev(e2)
				}
			}
		}
	case "loops":
		// loops of very many small descriptors (257 and more entries in a few hundred bytes)
		for _, n := range []int{255, 256, 257, 300, 1000} {
			var ds []*astits.Descriptor
			for j := 0; j < n; j++ {
				d := &astits.Descriptor{Tag: uint8(0x80 + r.intn(0x7f)), UserDefined: r.bytes(r.pick(0, 0, 1, 2))}
				d.Length = uint8(len(d.UserDefined))
				ds = append(ds, d)
			}
			descVec(rec, "loop-of-many", ds)
		}
		// language codes that are not 3 bytes long (what the parser leaves behind for a declared length of 3 or 8): padded or cut to 3 bytes on
		// the wire, and every length follows the bytes written
		for _, ln := range []int{0, 1, 2, 4, 7} {
			d := &astits.Descriptor{Tag: astits.DescriptorTagISO639LanguageAndAudioType, Length: uint8(r.pick(4, 0, ln+1)),
				ISO639LanguageAndAudioType: &astits.DescriptorISO639LanguageAndAudioType{Language: r.bytes(ln), Type: uint8(r.intn(4))}}
			tail := randDescriptor(r, "streamid", 0)
			setLength(tail, "correct", r)
			descVec(rec, "language-not-3-bytes", []*astits.Descriptor{d, tail}, true)
		}
		for i := 0; i < sc.N; i++ {
			var ds []*astits.Descriptor
			for j, n := 0, r.pick(0, 1, 2, 3, 4); j < n; j++ {
				d := randDescriptor(r, descKinds[r.intn(len(descKinds))], r.pick(10, 30, 60))
				setLength(d, modes[r.intn(4)], r)
				ds = append(ds, d)
			}
			descVec(rec, "loop", ds)
		}
	case "malformed":
		// a loop [good, middle, sentinel, sentinel] whose middle descriptor declares a length shorter / longer than its tag implies
		for i := 0; i < sc.N; i++ {
			mk := func(kind string) *astits.Descriptor {
				d := randDescriptor(r, kind, 20)
				setLength(d, "correct", r)
				return d
			}
			first, s1, s2 := mk("streamid"), mk("user"), mk("pds")
			midKind := descKinds[r.intn(len(descKinds))]
			mid := mk(midKind)
			encFailed := false
			enc := func(ds ...*astits.Descriptor) []byte {
				b, _, err := astits.VerifWriteDescriptorsWithLength(ds)
				if err != nil {
					descVec(rec, "malformed-base", ds) // a well-formed value the writer refuses: recorded and judged as a write vector
					encFailed = true
					return []byte{0, 0}
				}
				return b[2:]
			}
			a, m, z := enc(first), enc(mid), enc(s1, s2)
			if encFailed {
				continue
			}
			body := append([]byte(nil), m[2:]...)
			how := r.pickS("shorter", "longer", "longer-garbage", "zero")
			switch how {
			case "shorter":
				if len(body) > 0 {
					body = body[:r.intn(len(body))]
				}
			case "longer":
				body = append(body, make([]byte, 1+r.intn(6))...)
			case "longer-garbage":
				body = append(body, r.bytes(1+r.intn(6))...)
			case "zero":
				body = nil
			}
			loop := append(append(append(append([]byte(nil), a...), m[0], byte(len(body))), body...), z...)
			b := append([]byte{0xf0 | byte(len(loop)>>8), byte(len(loop))}, loop...)
			var got []*astits.Descriptor
			var off int
			var gerr error
			if pn := safeCall(func() { got, off, gerr = astits.VerifParseDescriptors(b) }); pn != nil {
				gerr = fmt.Errorf("panic %v", pn)
			}
			e := M{"ev": "dmal", "class": "malformed-" + how, "mid": midKind, "sent": projDescriptors([]*astits.Descriptor{s1, s2}), "first": projDescriptor(first),
				"gerr": errStr(gerr), "goff": off, "blen": len(b), "got": []M{}}
			if gerr != nil && fmt.Sprint(gerr)[:5] == "panic" {
				e["gerr"] = "panic"
			}
			scramble(b)
			if gerr == nil {
				e["got"] = projDescriptors(got)
			}
			rec.ev(e)
			// a descriptor whose declared length runs past the end of its loop: what follows the loop (the next loop entries of the table)
			// stays where the loop length puts it, or the loop is refused
			{
				over := 1 + r.intn(6)
				lp := append(append(append([]byte(nil), a...), m[0], byte(len(m)-2+over)), m[2:]...)
				bb := append(append([]byte{0xf0 | byte(len(lp)>>8), byte(len(lp))}, lp...), z...)
				var off2 int
				var gerr2 error
				if pn := safeCall(func() { _, off2, gerr2 = astits.VerifParseDescriptors(bb) }); pn != nil {
					gerr2 = fmt.Errorf("panic %v", pn)
				}
				e2 := M{"ev": "dover", "class": "descriptor-longer-than-its-loop", "mid": midKind, "gerr": errStr(gerr2), "goff": off2, "loopend": 2 + len(lp), "blen": len(bb)}
				if gerr2 != nil && fmt.Sprint(gerr2)[:5] == "panic" {
					e2["gerr"] = "panic"
				}
				rec.ev(e2)
			}
			// a loop whose length leaves one lone byte after its last whole descriptor: the descriptor header straddles the end of the loop
			// (its length byte is the first byte of whatever follows the loop: 0x00 for every service / event id below 256)
			for _, nb := range []byte{0x00, byte(1 + r.intn(255))} {
				lp := append(append([]byte(nil), a...), m[0])
				bb := append(append(append([]byte{0xf0 | byte(len(lp)>>8), byte(len(lp))}, lp...), nb), z...)
				var off3 int
				var gerr3 error
				if pn := safeCall(func() { _, off3, gerr3 = astits.VerifParseDescriptors(bb) }); pn != nil {
					gerr3 = fmt.Errorf("panic %v", pn)
				}
				e3 := M{"ev": "dover", "class": "descriptor-header-straddles-loop-end", "mid": midKind, "gerr": errStr(gerr3), "goff": off3, "loopend": 2 + len(lp), "blen": len(bb), "nb": int(nb)}
				if gerr3 != nil && fmt.Sprint(gerr3)[:5] == "panic" {
					e3["gerr"] = "panic"
				}
				rec.ev(e3)
			}
			// a descriptor declaring fewer bytes than its tag implies, as the last thing in the buffer: the typed parser finds nothing
			// left to read - refused (never a panic), or the parse ends at the end of the loop
			if len(m) > 2 {
				short := m[2 : 2+r.intn(len(m)-2)]
				lp := append(append(append([]byte(nil), a...), m[0], byte(len(short))), short...)
				bb := append([]byte{0xf0 | byte(len(lp)>>8), byte(len(lp))}, lp...)
				var off4 int
				var gerr4 error
				if pn := safeCall(func() { _, off4, gerr4 = astits.VerifParseDescriptors(bb) }); pn != nil {
					gerr4 = fmt.Errorf("panic %v", pn)
				}
				e4 := M{"ev": "dover", "class": "descriptor-shorter-than-its-body-at-end-of-input", "mid": midKind, "gerr": errStr(gerr4), "goff": off4, "loopend": len(bb), "blen": len(bb)}
				if gerr4 != nil && fmt.Sprint(gerr4)[:5] == "panic" {
					e4["gerr"] = "panic"
				}
				rec.ev(e4)
			}
		}
	default:
		fatal("unknown desc part %q", sc.Part)
	}
}
