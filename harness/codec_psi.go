package main

import (
	"bytes"
	"context"
	"encoding/json"
	"fmt"
	"time"

	"github.com/asticode/go-astits"
)

// ---------- C13 / C09: PSI and SI tables ----------

// tableModel is the harness's own model of one section (the "random table model" of C13)
type tableModel struct {
	K                 string // pat pmt sdt nit eit tot
	TID               int
	SSI, Priv, CNI    bool
	Ext, Ver, SN, LSN int
	PAT               *astits.PATData
	PMT               *astits.PMTData
	SDT               *astits.SDTData
	NIT               *astits.NITData
	EIT               *astits.EITData
	TOT               *astits.TOTData
	Ident             int
	Raw               []byte // K == "opaque": a section of a table the library recognises but does not decode (BAT, DIT, RST, SIT, ST, TDT)
}

var opaqueTIDs = []int{0x4a, 0x7e, 0x71, 0x7f, 0x72, 0x70}

func isOpaqueTID(t int) bool {
	for _, o := range opaqueTIDs {
		if o == t {
			return true
		}
	}
	return false
}

func randOpaque(r *rng) *tableModel {
	return &tableModel{K: "opaque", TID: opaqueTIDs[r.intn(len(opaqueTIDs))], SSI: r.boolean(), Priv: r.boolean(), Raw: r.bytes(r.pick(0, 1, 5, 8, 30, 120))}
}

func unitKind(ms []*tableModel) string {
	for _, m := range ms {
		if m.K != "opaque" {
			return m.K
		}
	}
	return "sdt"
}

func descLoopBytes(ds []*astits.Descriptor) []byte {
	b, _, err := astits.VerifWriteDescriptorsWithLength(ds) // the real descriptor writer (judged by C14); gives 0xF + 12-bit length + descriptors
	if err != nil {
		fatal("descriptor loop: %v", err)
	}
	return b
}

func dvbTimeBytes(t time.Time) []byte {
	t = t.UTC()
	days := int(t.Sub(time.Date(1900, 3, 1, 0, 0, 0, 0, time.UTC)).Hours()) / 24
	mjd := 15079 + days
	return []byte{byte(mjd >> 8), byte(mjd), bcd(t.Hour()), bcd(t.Minute()), bcd(t.Second())}
}

// twinSection encodes a table model (ISO 13818-1 2.4.4 / EN 300 468 5.2); TLC re-derives every vector (PSI.tla)
func twinSection(m *tableModel) []byte {
	if m.K == "opaque" {
		return append([]byte{byte(m.TID), b2i(m.SSI)<<7 | b2i(m.Priv)<<6 | 0x30 | byte(len(m.Raw)>>8&0xf), byte(len(m.Raw))}, m.Raw...)
	}
	var body []byte
	put16 := func(v int) { body = append(body, byte(v>>8), byte(v)) }
	loop := func(prefix byte, ds []*astits.Descriptor) {
		lb := descLoopBytes(ds)
		lb[0] = prefix<<4 | lb[0]&0x0f
		body = append(body, lb...)
	}
	if m.K != "tot" {
		put16(m.Ext)
		body = append(body, 0xc0|byte(m.Ver&0x1f)<<1|b2i(m.CNI), byte(m.SN), byte(m.LSN))
	}
	switch m.K {
	case "pat":
		for _, p := range m.PAT.Programs {
			put16(int(p.ProgramNumber))
			put16(0xe000 | int(p.ProgramMapID)&0x1fff)
		}
	case "pmt":
		put16(0xe000 | int(m.PMT.PCRPID)&0x1fff)
		loop(0xf, m.PMT.ProgramDescriptors)
		for _, e := range m.PMT.ElementaryStreams {
			body = append(body, byte(e.StreamType))
			put16(0xe000 | int(e.ElementaryPID)&0x1fff)
			loop(0xf, e.ElementaryStreamDescriptors)
		}
	case "sdt":
		put16(int(m.SDT.OriginalNetworkID))
		body = append(body, 0xff)
		for _, s := range m.SDT.Services {
			put16(int(s.ServiceID))
			body = append(body, 0xfc|b2i(s.HasEITSchedule)<<1|b2i(s.HasEITPresentFollowing))
			loop(s.RunningStatus&7<<1|b2i(s.HasFreeCSAMode), s.Descriptors)
		}
	case "nit":
		loop(0xf, m.NIT.NetworkDescriptors)
		var tss []byte
		saved := body
		body = nil
		for _, t := range m.NIT.TransportStreams {
			put16(int(t.TransportStreamID))
			put16(int(t.OriginalNetworkID))
			loop(0xf, t.TransportDescriptors)
		}
		tss, body = body, saved
		put16(0xf000 | len(tss))
		body = append(body, tss...)
	case "eit":
		put16(int(m.EIT.TransportStreamID))
		put16(int(m.EIT.OriginalNetworkID))
		body = append(body, m.EIT.SegmentLastSectionNumber, m.EIT.LastTableID)
		for _, e := range m.EIT.Events {
			put16(int(e.EventID))
			body = append(body, dvbTimeBytes(e.StartTime)...)
			s := int(e.Duration / time.Second)
			body = append(body, bcd(s/3600), bcd(s/60%60), bcd(s%60))
			loop(e.RunningStatus&7<<1|b2i(e.HasFreeCSAMode), e.Descriptors)
		}
	case "tot":
		body = append(body, dvbTimeBytes(m.TOT.UTCTime)...)
		loop(0xf, m.TOT.Descriptors)
	}
	slen := len(body) + 4
	sec := []byte{byte(m.TID), b2i(m.SSI)<<7 | b2i(m.Priv)<<6 | 0x30 | byte(slen>>8&0xf), byte(slen)}
	sec = append(sec, body...)
	c := crc32mpeg(sec)
	return append(sec, byte(c>>24), byte(c>>16), byte(c>>8), byte(c))
}

func b2i(b bool) byte {
	if b {
		return 1
	}
	return 0
}

// ---------- projections ----------

// encTableModel: the table value with full descriptor values (what the reference encoder needs)
func encTableModel(m *tableModel) M {
	v := projTableModel(m)
	fullDescs(v, m)
	return v
}

func fullDescs(v M, m *tableModel) {
	switch m.K {
	case "pmt":
		v["pinfo"] = projDescriptors(m.PMT.ProgramDescriptors)
		for i, e := range m.PMT.ElementaryStreams {
			v["streams"].([]M)[i]["descs"] = projDescriptors(e.ElementaryStreamDescriptors)
		}
	case "sdt":
		for i, e := range m.SDT.Services {
			v["services"].([]M)[i]["descs"] = projDescriptors(e.Descriptors)
		}
	case "nit":
		v["ndescs"] = projDescriptors(m.NIT.NetworkDescriptors)
		for i, e := range m.NIT.TransportStreams {
			v["tss"].([]M)[i]["descs"] = projDescriptors(e.TransportDescriptors)
		}
	case "eit":
		for i, e := range m.EIT.Events {
			v["events"].([]M)[i]["descs"] = projDescriptors(e.Descriptors)
		}
	case "tot":
		v["descs"] = projDescriptors(m.TOT.Descriptors)
	}
}

func projTableModel(m *tableModel) M {
	if m.K == "opaque" {
		return M{"k": m.K, "tid": m.TID, "ssi": m.SSI, "priv": m.Priv, "raw": ints(m.Raw)}
	}
	v := M{"k": m.K, "tid": m.TID, "ssi": m.SSI, "priv": m.Priv, "ext": m.Ext, "ver": m.Ver, "cni": m.CNI, "sn": m.SN, "lsn": m.LSN}
	projBody(v, m.K, m.PAT, m.PMT, m.SDT, m.NIT, m.EIT, m.TOT)
	return v
}

// normDescs: descriptor values as compared inside tables: without the redundant Length, and a descriptor whose body is
// empty as the body-less descriptor the parser returns for descriptor_length 0
func normDescs(ds []*astits.Descriptor) []M {
	out := []M{}
	for _, d := range ds {
		m := projDescriptor(d)
		delete(m, "len")
		if astits.VerifCalcDescriptorsLength([]*astits.Descriptor{d}) == 2 || m["k"] == "empty" {
			m = M{"tag": int(d.Tag), "k": "empty"}
		}
		out = append(out, m)
	}
	return out
}

func projBody(v M, k string, pat *astits.PATData, pmt *astits.PMTData, sdt *astits.SDTData, nit *astits.NITData, eit *astits.EITData, tot *astits.TOTData) {
	switch k {
	case "pat":
		ps := []M{}
		for _, p := range pat.Programs {
			ps = append(ps, M{"pn": int(p.ProgramNumber), "pid": int(p.ProgramMapID)})
		}
		v["progs"] = ps
	case "pmt":
		v["pcr"], v["pinfo"] = int(pmt.PCRPID), normDescs(pmt.ProgramDescriptors)
		ss := []M{}
		for _, e := range pmt.ElementaryStreams {
			ss = append(ss, M{"st": int(e.StreamType), "pid": int(e.ElementaryPID), "descs": normDescs(e.ElementaryStreamDescriptors)})
		}
		v["streams"] = ss
	case "sdt":
		v["onid"] = int(sdt.OriginalNetworkID)
		ss := []M{}
		for _, s := range sdt.Services {
			ss = append(ss, M{"sid": int(s.ServiceID), "eits": s.HasEITSchedule, "eitpf": s.HasEITPresentFollowing, "run": int(s.RunningStatus), "free": s.HasFreeCSAMode,
				"descs": normDescs(s.Descriptors)})
		}
		v["services"] = ss
	case "nit":
		v["ndescs"] = normDescs(nit.NetworkDescriptors)
		ts := []M{}
		for _, t := range nit.TransportStreams {
			ts = append(ts, M{"tsid": int(t.TransportStreamID), "onid": int(t.OriginalNetworkID), "descs": normDescs(t.TransportDescriptors)})
		}
		v["tss"] = ts
	case "eit":
		v["tsid"], v["onid"], v["slsn"], v["ltid"] = int(eit.TransportStreamID), int(eit.OriginalNetworkID), int(eit.SegmentLastSectionNumber), int(eit.LastTableID)
		es := []M{}
		for _, e := range eit.Events {
			es = append(es, M{"id": int(e.EventID), "start": projTime(e.StartTime), "dur": int(e.Duration / time.Second), "run": int(e.RunningStatus), "free": e.HasFreeCSAMode,
				"descs": normDescs(e.Descriptors)})
		}
		v["events"] = es
	case "tot":
		v["utc"], v["descs"] = projTime(tot.UTCTime), normDescs(tot.Descriptors)
	}
}

// projParsedSection projects a section parsed by the library (header fields reachable only through parsePSIData)
func projParsedSection(s *astits.PSISection) M {
	v := M{"k": "none", "tid": -1}
	if s == nil || s.Header == nil {
		return v
	}
	h := s.Header
	v["tid"], v["ssi"], v["priv"], v["slen"], v["crc"] = int(h.TableID), h.SectionSyntaxIndicator, h.PrivateBit, int(h.SectionLength), u32w(s.CRC32)
	v["ext"], v["ver"], v["cni"], v["sn"], v["lsn"] = 0, 0, false, 0, 0
	if s.Syntax == nil {
		return v
	}
	if sh := s.Syntax.Header; sh != nil {
		v["ext"], v["ver"], v["cni"], v["sn"], v["lsn"] = int(sh.TableIDExtension), int(sh.VersionNumber), sh.CurrentNextIndicator, int(sh.SectionNumber), int(sh.LastSectionNumber)
	}
	d := s.Syntax.Data
	if d == nil {
		return v
	}
	switch {
	case d.PAT != nil:
		v["k"] = "pat"
	case d.PMT != nil:
		v["k"] = "pmt"
	case d.SDT != nil:
		v["k"] = "sdt"
	case d.NIT != nil:
		v["k"] = "nit"
	case d.EIT != nil:
		v["k"] = "eit"
	case d.TOT != nil:
		v["k"] = "tot"
	}
	projBody(v, v["k"].(string), d.PAT, d.PMT, d.SDT, d.NIT, d.EIT, d.TOT)
	return v
}

// ---------- generators ----------

func edge16(r *rng) int { return edge(r, 16) }

func smallDescs(r *rng, max int, budget int) []*astits.Descriptor {
	var ds []*astits.Descriptor
	for i, n := 0, r.intn(max+1); i < n; i++ {
		d := randDescriptor(r, descKinds[r.intn(len(descKinds))], budget)
		setLength(d, "correct", r)
		ds = append(ds, d)
	}
	return ds
}

// bigDescs: descriptors adding up to at least target bytes (a loop length that needs the upper bits of its 12-bit field)
func bigDescs(r *rng, target int) []*astits.Descriptor {
	var ds []*astits.Descriptor
	for int(astits.VerifCalcDescriptorsLength(ds)) < target {
		d := randDescriptor(r, descKinds[r.intn(len(descKinds))], r.pick(60, 120, 250))
		setLength(d, "correct", r)
		ds = append(ds, d)
	}
	return ds
}

// bigLoopEIT: an EIT section (up to 4093 bytes) with one event whose descriptor loop is 1024..3000 bytes, between small events
func bigLoopEIT(r *rng) *tableModel {
	m := randTable(r, "eit", 2, 8)
	m.EIT.Events[r.intn(2)].Descriptors = bigDescs(r, r.pick(1024, 1025, 1100, 2047, 2048, 2100, 3000))
	return m
}

func randDate(r *rng) time.Time {
	return time.Date(1900, 3, 1, r.intn(24), r.intn(60), r.intn(60), 0, time.UTC).AddDate(0, 0, r.intn(50457))
}

func randTable(r *rng, k string, entries int, dbudget int) *tableModel {
	m := &tableModel{K: k, SSI: true, Priv: r.boolean(), CNI: r.boolean(), Ext: edge16(r), Ver: edge(r, 5), SN: edge(r, 8), LSN: edge(r, 8)}
	nd := 2
	if dbudget == 0 {
		nd = 0
	}
	switch k {
	case "pat":
		m.TID = 0
		m.PAT = &astits.PATData{TransportStreamID: uint16(m.Ext)}
		for i := 0; i < entries; i++ {
			m.PAT.Programs = append(m.PAT.Programs, &astits.PATProgram{ProgramNumber: uint16(edge16(r)), ProgramMapID: uint16(edge(r, 13))})
		}
	case "pmt":
		m.TID = 2
		m.PMT = &astits.PMTData{ProgramNumber: uint16(m.Ext), PCRPID: uint16(edge(r, 13)), ProgramDescriptors: smallDescs(r, nd, dbudget)}
		for i := 0; i < entries; i++ {
			m.PMT.ElementaryStreams = append(m.PMT.ElementaryStreams, &astits.PMTElementaryStream{StreamType: astits.StreamType(edge(r, 8)), ElementaryPID: uint16(edge(r, 13)),
				ElementaryStreamDescriptors: smallDescs(r, nd, dbudget)})
		}
	case "sdt":
		m.TID = r.pick(0x42, 0x46)
		m.SDT = &astits.SDTData{TransportStreamID: uint16(m.Ext), OriginalNetworkID: uint16(edge16(r))}
		for i := 0; i < entries; i++ {
			m.SDT.Services = append(m.SDT.Services, &astits.SDTDataService{ServiceID: uint16(edge16(r)), HasEITSchedule: r.boolean(), HasEITPresentFollowing: r.boolean(),
				RunningStatus: uint8(edge(r, 3)), HasFreeCSAMode: r.boolean(), Descriptors: smallDescs(r, nd, dbudget)})
		}
	case "nit":
		m.TID = r.pick(0x40, 0x41)
		m.NIT = &astits.NITData{NetworkID: uint16(m.Ext), NetworkDescriptors: smallDescs(r, nd, dbudget)}
		for i := 0; i < entries; i++ {
			m.NIT.TransportStreams = append(m.NIT.TransportStreams, &astits.NITDataTransportStream{TransportStreamID: uint16(edge16(r)), OriginalNetworkID: uint16(edge16(r)),
				TransportDescriptors: smallDescs(r, nd, dbudget)})
		}
	case "eit":
		m.TID = r.pick(0x4e, 0x4f, 0x50, 0x5f, 0x60, 0x6f, 0x4e+r.intn(34))
		m.EIT = &astits.EITData{ServiceID: uint16(m.Ext), TransportStreamID: uint16(edge16(r)), OriginalNetworkID: uint16(edge16(r)), SegmentLastSectionNumber: uint8(edge(r, 8)), LastTableID: uint8(edge(r, 8))}
		for i := 0; i < entries; i++ {
			m.EIT.Events = append(m.EIT.Events, &astits.EITDataEvent{EventID: uint16(edge16(r)), StartTime: randDate(r),
				Duration: time.Duration(r.intn(100)*3600+r.intn(60)*60+r.intn(60)) * time.Second, RunningStatus: uint8(edge(r, 3)), HasFreeCSAMode: r.boolean(),
				Descriptors: smallDescs(r, nd, dbudget)})
		}
	case "tot":
		m.TID = 0x73
		m.SSI, m.Priv = false, true
		m.Ext, m.Ver, m.CNI, m.SN, m.LSN = 0, 0, false, 0, 0
		m.TOT = &astits.TOTData{UTCTime: randDate(r), Descriptors: smallDescs(r, nd+entries, dbudget)}
	default:
		fatal("unknown table kind %q", k)
	}
	return m
}

var tableKinds = []string{"pat", "pmt", "sdt", "nit", "eit", "tot"}

type psiScenario struct {
	SID  string `json:"sid"`
	Kind string `json:"kind"`
	Seed uint64 `json:"seed"`
	Part string `json:"part"` // tables | units | large | writer | muxer | corrupt
	N    int    `json:"n"`
	K    string `json:"k,omitempty"`
}

// demuxUnit feeds one PSI unit (on the PID its first table belongs to, after a PAT when it is a PMT) through a real Demuxer
func pidForKind(k string) int {
	switch k {
	case "pat":
		return 0
	case "pmt":
		return 0x1000
	case "sdt":
		return 0x11
	case "nit":
		return 0x10
	case "eit":
		return 0x12
	case "tot":
		return 0x14
	}
	return 0x11
}

func packetise(pid int, unit []byte, cc0 int) []byte {
	var out []byte
	for off, i := 0, 0; off < len(unit); i++ {
		n := len(unit) - off
		if n > 184 {
			n = 184
		}
		p := make([]byte, 188)
		p[0] = 0x47
		p[1] = byte(pid >> 8 & 0x1f)
		if off == 0 {
			p[1] |= 0x40
		}
		p[2] = byte(pid)
		p[3] = 0x10 | byte((cc0+i)&0xf)
		copy(p[4:], unit[off:off+n])
		for j := 4 + n; j < 188; j++ {
			p[j] = 0xff
		}
		out = append(out, p...)
		off += n
	}
	return out
}

// patUnitFor: a PID-0 unit announcing pmtPID: alone, or in the 2nd / 3rd PAT section of the unit (by variant)
func patUnitFor(pmtPID int, variant int) []byte {
	unit := []byte{0}
	for i := 0; i < variant%3; i++ {
		m := &tableModel{K: "pat", TID: 0, SSI: true, CNI: true, Ext: 1, SN: i, LSN: variant % 3,
			PAT: &astits.PATData{Programs: []*astits.PATProgram{{ProgramNumber: uint16(100 + i), ProgramMapID: uint16(0x1f00 + i)}}}}
		unit = append(unit, twinSection(m)...)
	}
	m := &tableModel{K: "pat", TID: 0, SSI: true, CNI: true, Ext: 1, SN: variant % 3, LSN: variant % 3,
		PAT: &astits.PATData{Programs: []*astits.PATProgram{{ProgramNumber: 1, ProgramMapID: uint16(pmtPID)}}}}
	return append(unit, twinSection(m)...)
}

func patFor(pmtPID int) []byte {
	m := &tableModel{K: "pat", TID: 0, SSI: true, CNI: true, Ext: 1, PAT: &astits.PATData{Programs: []*astits.PATProgram{{ProgramNumber: 1, ProgramMapID: uint16(pmtPID)}}}}
	return append([]byte{0}, twinSection(m)...)
}

// demuxOutcome: what a real Demuxer makes of the unit: list of delivered tables (kind, content digest), errors, nothing
func demuxOutcome(k string, unit []byte) (tables []M, errs int, panicked bool) {
	var stream []byte
	pid := pidForKind(k)
	if k == "pmt" {
		stream = append(stream, packetise(0, patFor(pid), 0)...)
	}
	stream = append(stream, packetise(pid, unit, 3)...)
	dmx := astits.NewDemuxer(context.Background(), bytes.NewReader(stream), astits.DemuxerOptPacketSize(188))
	for i := 0; i < len(stream)/188+20; i++ {
		var d *astits.DemuxerData
		var err error
		if pn := safeCall(func() { d, err = dmx.NextData() }); pn != nil {
			return tables, errs, true
		}
		if err == astits.ErrNoMorePackets {
			return
		}
		if err != nil {
			errs++
			continue
		}
		if int(d.PID) != pid {
			continue // the helper PAT
		}
		e := projDeliver(d)
		tables = append(tables, M{"kind": e["kind"], "cdg": e["cdg"]})
	}
	return
}

// demuxOutcomeAfterClean: the clean unit and then the faulted one (a damaged repetition, as on a noisy link) through ONE Demuxer; what is
// delivered behind the clean unit's own tables
func demuxOutcomeAfterClean(k string, unit, faulted []byte, nclean int) (tables []M, errs int, panicked bool) {
	var stream []byte
	pid := pidForKind(k)
	if k == "pmt" {
		stream = append(stream, packetise(0, patFor(pid), 0)...)
	}
	first := packetise(pid, unit, 3)
	stream = append(stream, first...)
	stream = append(stream, packetise(pid, faulted, 3+len(first)/188)...)
	dmx := astits.NewDemuxer(context.Background(), bytes.NewReader(stream), astits.DemuxerOptPacketSize(188))
	seen := 0
	for i := 0; i < len(stream)/188+20; i++ {
		var d *astits.DemuxerData
		var err error
		if pn := safeCall(func() { d, err = dmx.NextData() }); pn != nil {
			return tables, errs, true
		}
		if err == astits.ErrNoMorePackets {
			return
		}
		if err != nil {
			errs++
			continue
		}
		if int(d.PID) != pid {
			continue
		}
		seen++
		if seen <= nclean {
			continue
		}
		e := projDeliver(d)
		tables = append(tables, M{"kind": e["kind"], "cdg": e["cdg"]})
	}
	return
}

func runPSI(line []byte, rec *recorder) {
	var sc psiScenario
	if err := json.Unmarshal(line, &sc); err != nil {
		fatal("bad psi scenario: %v", err)
	}
	rec.ev(M{"ev": "reset", "t": sc.SID, "kind": "psi", "part": sc.Part})
	r := newRng(sc.Seed ^ hashStr(sc.SID))
	tvec := func(class string, ptr int, ms []*tableModel, trail int) {
		unit := []byte{byte(ptr)}
		for i := 0; i < ptr; i++ {
			unit = append(unit, 0xff)
		}
		vals := []M{}
		encs := []M{}
		encall := []M{}
		nopq := 0
		for _, m := range ms {
			if len(unit)%184 == 0 {
				// this section would start with a packet: that packet has to set payload_unit_start_indicator (ISO 13818-1 2.4.3.3), so
				// the sections are not one unit for a demultiplexer; not a vector
				return
			}
			unit = append(unit, twinSection(m)...)
			if m.K == "opaque" { // not delivered, but the sections around it are
				encall = append(encall, projTableModel(m))
				nopq++
				continue
			}
			vals = append(vals, projTableModel(m))
			encs = append(encs, encTableModel(m))
			encall = append(encall, encTableModel(m))
		}
		for i := 0; i < trail; i++ {
			unit = append(unit, 0xff)
		}
		e := M{"ev": "tvec", "class": class, "ptr": ptr, "secs": vals, "enc": encs, "trail": trail, "b": ints(unit), "got": []M{}, "gerr": "none", "gptr": -1, "data": []M{}, "derrs": 0,
			"encall": encall, "nopq": nopq, "gopq": 0}
		var d *astits.PSIData
		var err error
		if pn := safeCall(func() { d, err = astits.VerifParsePSIData(unit) }); pn != nil {
			err = fmt.Errorf("panic %v", pn)
		}
		e["gerr"] = errStr(err)
		scramble(unit)
		if err == nil {
			got := []M{}
			gopq := 0
			for _, s := range d.Sections {
				if s.Header != nil && int(s.Header.TableID) == 0xff {
					continue // the stuffing marker
				}
				if s.Header != nil && isOpaqueTID(int(s.Header.TableID)) && s.Syntax != nil && s.Syntax.Data != nil && s.Syntax.Data.PAT == nil && s.Syntax.Data.PMT == nil &&
					s.Syntax.Data.SDT == nil && s.Syntax.Data.NIT == nil && s.Syntax.Data.EIT == nil && s.Syntax.Data.TOT == nil || s.Header != nil && isOpaqueTID(int(s.Header.TableID)) && (s.Syntax == nil || s.Syntax.Data == nil) {
					gopq++
					continue // a section of an undecoded table: counted, nothing to compare
				}
				got = append(got, projParsedSection(s))
			}
			e["got"], e["gptr"], e["gopq"] = got, d.PointerField, gopq
		}
		scramble(unit)
		// and through the public API: DemuxerData field for field (one section kinds only when they share a PID)
		tabs, errs, pan := demuxOutcome(unitKind(ms), unit)
		_ = tabs
		e["derrs"], e["dpanic"] = errs, pan
		dd := []M{}
		if !pan {
			dmxUnitData(unitKind(ms), unit, &dd)
		}
		e["data"] = dd
		rec.ev(e)
	}
	switch sc.Part {
	case "tables": // per kind: 0..3 entries, identifier fields at edge values, 0..2 descriptors per loop
		for i := 0; i < sc.N; i++ {
			k := sc.K
			m := randTable(r, k, i%4, r.pick(0, 12, 30))
			tvec(k, r.pick(0, 0, 1, 7), []*tableModel{m}, r.pick(0, 1, 20))
		}
	case "units": // 1..3 sections per unit on one PID
		for i := 0; i < sc.N; i++ {
			k := sc.K
			var ms []*tableModel
			for j, n := 0, r.rangeInt(1, 3); j < n; j++ {
				ms = append(ms, randTable(r, k, r.intn(3), r.pick(0, 10)))
			}
			tvec(k+"-multi", r.pick(0, 3), ms, r.pick(0, 5))
			// sections of tables the library does not decode (BAT, DIT, RST, SIT, ST, TDT) between, before and after them
			var mo []*tableModel
			for _, m := range ms {
				for r.intn(2) == 0 {
					mo = append(mo, randOpaque(r))
				}
				mo = append(mo, m)
			}
			if r.intn(2) == 0 {
				mo = append(mo, randOpaque(r))
			}
			tvec(k+"-multi-with-undecoded", r.pick(0, 3), mo, r.pick(0, 5))
		}
	case "large": // up to the 1021 / 4093-byte section limits
		for i := 0; i < sc.N; i++ {
			k := sc.K
			var m *tableModel
			switch k {
			case "pat":
				m = randTable(r, k, r.pick(100, 200, 250, 253), 0)
			case "pmt":
				m = randTable(r, k, r.pick(50, 100, 150, 200), 0)
			case "sdt":
				m = randTable(r, k, r.pick(20, 40, 60), 10)
			case "nit":
				m = randTable(r, k, r.pick(20, 50, 80), 6)
			case "eit":
				m = randTable(r, k, r.pick(20, 60, 120), 12)
			default:
				m = randTable(r, k, r.pick(5, 10, 15), 40)
			}
			if len(twinSection(m)) > 4096 || (k != "eit" && len(twinSection(m)) > 1024) {
				continue
			}
			tvec(k+"-large", 0, []*tableModel{m}, 0)
			if k == "eit" {
				if m := bigLoopEIT(r); len(twinSection(m)) <= 4096 {
					tvec("eit-large-loop", 0, []*tableModel{m}, r.pick(0, 3))
					// the same section behind a long pointer filler: it ends past byte 4096 of its unit, which is nobody's limit
					tvec("eit-large-loop-behind-pointer", r.pick(120, 200, 255), []*tableModel{m}, 0)
					// ... and grown to the 4096 bytes a section may have (section_length 4093)
					for guard := 0; guard < 40 && len(twinSection(m)) < 4096; guard++ {
						need := 4096 - len(twinSection(m))
						if need < 2 {
							break
						}
						body := need - 2
						if body > 255 {
							body = 255
							if need-2-255 == 1 {
								body = 254
							}
						}
						ev := m.EIT.Events[len(m.EIT.Events)-1]
						if int(astits.VerifCalcDescriptorsLength(ev.Descriptors))+2+body > 4000 {
							break
						}
						d := &astits.Descriptor{Tag: uint8(0x80 + r.intn(0x7f)), UserDefined: r.bytes(body)}
						d.Length = uint8(body)
						ev.Descriptors = append(ev.Descriptors, d)
					}
					if len(twinSection(m)) == 4096 {
						tvec("eit-4096-bytes", 0, []*tableModel{m}, 0)
						tvec("eit-4096-bytes", 7, []*tableModel{m}, 2)
					}
				}
			}
		}
	case "writer": // writePSIData for PAT / PMT with arbitrary header fields
		for i := 0; i < sc.N; i++ {
			k := []string{"pat", "pmt"}[i%2]
			m := randTable(r, k, r.intn(5), r.pick(0, 12, 40))
			if k == "pmt" && i%4 == 1 {
				// one descriptor at the top of the 8-bit descriptor_length range (body of 253, 254 or 255 bytes) in the program loop or an
				// elementary stream's loop: every enclosing length moves by the full 2 + body bytes
				big := &astits.Descriptor{Tag: uint8(0x80 + r.intn(0x7f)), UserDefined: r.bytes([]int{254, 255, 253}[(i/4)%3])}
				big.Length = uint8(len(big.UserDefined))
				if len(m.PMT.ElementaryStreams) > 0 && r.boolean() {
					es := m.PMT.ElementaryStreams[r.intn(len(m.PMT.ElementaryStreams))]
					es.ElementaryStreamDescriptors = append(es.ElementaryStreamDescriptors, big)
				} else {
					m.PMT.ProgramDescriptors = append([]*astits.Descriptor{big}, m.PMT.ProgramDescriptors...)
				}
			}
			ptr := r.pick(0, 0, 2, 9)
			sec := &astits.PSISection{Header: &astits.PSISectionHeader{TableID: astits.PSITableID(m.TID), SectionSyntaxIndicator: m.SSI, PrivateBit: m.Priv, SectionLength: uint16(1 + r.intn(100))},
				Syntax: &astits.PSISectionSyntax{Header: &astits.PSISectionSyntaxHeader{TableIDExtension: uint16(m.Ext), VersionNumber: uint8(m.Ver), CurrentNextIndicator: m.CNI,
					SectionNumber: uint8(m.SN), LastSectionNumber: uint8(m.LSN)}, Data: &astits.PSISectionSyntaxData{PAT: m.PAT, PMT: m.PMT}}}
			if i%3 == 2 {
				// a section as the parser leaves it (section_length and CRC_32 filled in) whose content was edited afterwards without changing
				// its size: the checksum is computed over what is written, the stored one is stale
				sec.Header.SectionLength = uint16(len(twinSection(m)) - 3)
				sec.CRC32 = uint32(r.u64()) | 1
			}
			secs := []*astits.PSISection{sec}
			vals := []M{encTableModel(m)}
			for extra := r.pick(0, 0, 1, 2); extra > 0; extra-- { // several sections in one writePSIData call
				k2 := []string{"pat", "pmt"}[r.intn(2)]
				m2 := randTable(r, k2, r.intn(4), r.pick(0, 10))
				secs = append(secs, &astits.PSISection{Header: &astits.PSISectionHeader{TableID: astits.PSITableID(m2.TID), SectionSyntaxIndicator: m2.SSI, PrivateBit: m2.Priv, SectionLength: 1},
					Syntax: &astits.PSISectionSyntax{Header: &astits.PSISectionSyntaxHeader{TableIDExtension: uint16(m2.Ext), VersionNumber: uint8(m2.Ver), CurrentNextIndicator: m2.CNI,
						SectionNumber: uint8(m2.SN), LastSectionNumber: uint8(m2.LSN)}, Data: &astits.PSISectionSyntaxData{PAT: m2.PAT, PMT: m2.PMT}}})
				vals = append(vals, encTableModel(m2))
			}
			var wb []byte
			var n int
			var err error
			if pn := safeCall(func() {
				wb, n, err = astits.VerifWritePSIData(&astits.PSIData{PointerField: ptr, Sections: secs})
			}); pn != nil {
				err = fmt.Errorf("panic %v", pn)
			}
			rec.ev(M{"ev": "wvec", "class": k + "-writer", "ptr": ptr, "secs": vals, "wb": ints(wb), "wn": n, "werr": errStr(err), "nsec": len(secs)})
		}
		for i := 0; i < 3; i++ { // a PAT whose CRC_32 is 0x00000000: its last program entry equals the checksum of what precedes it
			m := randTable(r, "pat", 1+r.intn(3), 0)
			m.PAT.Programs = append(m.PAT.Programs, &astits.PATProgram{})
			last := m.PAT.Programs[len(m.PAT.Programs)-1]
			for ext := 0; ext < 4096; ext++ {
				m.Ext = ext
				m.PAT.TransportStreamID = uint16(ext)
				sec := twinSection(m)
				c := crc32mpeg(sec[:len(sec)-8])
				if c>>13&7 == 7 { // the three reserved bits of the entry are ones
					last.ProgramNumber, last.ProgramMapID = uint16(c>>16), uint16(c&0x1fff)
					break
				}
			}
			sec := &astits.PSISection{Header: &astits.PSISectionHeader{TableID: 0, SectionSyntaxIndicator: m.SSI, PrivateBit: m.Priv, SectionLength: 1},
				Syntax: &astits.PSISectionSyntax{Header: &astits.PSISectionSyntaxHeader{TableIDExtension: uint16(m.Ext), VersionNumber: uint8(m.Ver), CurrentNextIndicator: m.CNI,
					SectionNumber: uint8(m.SN), LastSectionNumber: uint8(m.LSN)}, Data: &astits.PSISectionSyntaxData{PAT: m.PAT}}}
			var wb []byte
			var n int
			var err error
			if pn := safeCall(func() { wb, n, err = astits.VerifWritePSIData(&astits.PSIData{Sections: []*astits.PSISection{sec}}) }); pn != nil {
				err = fmt.Errorf("panic %v", pn)
			}
			rec.ev(M{"ev": "wvec", "class": "pat-writer-crc-zero", "ptr": 0, "secs": []M{encTableModel(m)}, "wb": ints(wb), "wn": n, "werr": errStr(err), "nsec": 1})
		}
	case "muxer": // the PAT and PMT the Muxer itself emits
		for i := 0; i < sc.N; i++ {
			w := &recWriter{}
			mx := astits.NewMuxer(context.Background(), w)
			pmt := &astits.PMTData{ProgramNumber: 1}
			budget := 150
			for j, n := 0, r.rangeInt(1, 4); j < n; j++ {
				ds := smallDescs(r, 2, r.pick(4, 10, 20))
				for _, d := range ds {
					setLength(d, r.pickS("correct", "zero", "wrong"), r)
				}
				es := astits.PMTElementaryStream{ElementaryPID: uint16(0x100 + j), StreamType: astits.StreamType(r.pick(0x1b, 0x0f, 0x06, 0x81)), ElementaryStreamDescriptors: ds}
				cost := 5 + int(astits.VerifCalcDescriptorsLength(ds))
				if cost > budget {
					continue
				}
				budget -= cost
				if err := mx.AddElementaryStream(es); err != nil {
					fatal("add: %v", err)
				}
				e2 := es
				pmt.ElementaryStreams = append(pmt.ElementaryStreams, &e2)
			}
			if len(pmt.ElementaryStreams) == 0 {
				continue
			}
			pmt.PCRPID = pmt.ElementaryStreams[r.intn(len(pmt.ElementaryStreams))].ElementaryPID
			if i%4 == 3 && budget >= 11 {
				// a section whose CRC_32 is 0x00000000: its last four data bytes (the format identifier of a closing registration
				// descriptor) equal the checksum of everything before them (residue property; as legal a checksum as any other)
				reg := &astits.Descriptor{Tag: astits.DescriptorTagRegistration, Length: 4, Registration: &astits.DescriptorRegistration{}}
				es := astits.PMTElementaryStream{ElementaryPID: 0x1f0, StreamType: astits.StreamTypePrivateData, ElementaryStreamDescriptors: []*astits.Descriptor{reg}}
				pmt.ElementaryStreams = append(pmt.ElementaryStreams, &es)
				for ver := 0; ver < 2; ver++ { // the version the first emission will carry is not known for sure: cover 0 and 1
					sec := twinSection(&tableModel{K: "pmt", TID: 2, SSI: true, CNI: true, Ext: 1, Ver: ver, PMT: pmt})
					if ver == 0 {
						reg.Registration.FormatIdentifier = crc32mpeg(sec[:len(sec)-8])
					}
				}
				if err := mx.AddElementaryStream(es); err != nil {
					fatal("add: %v", err)
				}
			}
			mx.SetPCRPID(pmt.PCRPID)
			for rep := 0; rep < 2; rep++ {
				before := w.buf.Len()
				n, err := mx.WriteTables()
				out := w.buf.Bytes()[before:]
				if err != nil || n != 376 || len(out) != 376 {
					rec.ev(M{"ev": "mvec", "class": "muxer-tables", "ok": false, "err": errStr(err), "n": n, "pat": []int{}, "pmt": []int{}, "patv": M{}, "pmtv": M{}})
					continue
				}
				patv := encTableModel(&tableModel{K: "pat", TID: 0, SSI: true, CNI: true, Ext: int(out[4+4])<<8 | int(out[4+5]), Ver: int(out[4+6]>>1) & 0x1f,
					PAT: &astits.PATData{Programs: []*astits.PATProgram{{ProgramNumber: 1, ProgramMapID: 0x1000}}}})
				pmtv := encTableModel(&tableModel{K: "pmt", TID: 2, SSI: true, CNI: true, Ext: 1, Ver: int(out[188+4+6]>>1) & 0x1f, PMT: pmt})
				rec.ev(M{"ev": "mvec", "class": "muxer-tables", "ok": true, "err": "nil", "n": n, "pat": ints(out[4:188]), "pmt": ints(out[192:376]), "patv": patv, "pmtv": pmtv})
			}
		}
		// descriptor values whose encoding no reference covers (a local time offset whose time of change was never set, the zero time.Time;
		// times before 1900): whatever bytes the descriptor writer picks for them, the section's lengths and CRC_32 cover exactly those bytes
		// (structure only: event "mvecs", judged by C09)
		for i := 0; i < 4; i++ {
			w := &recWriter{}
			mx := astits.NewMuxer(context.Background(), w)
			var toc time.Time
			if i%2 == 1 {
				toc = time.Date(1850+r.intn(40), 3, 1, 0, 0, 0, 0, time.UTC)
			}
			lto := &astits.Descriptor{Tag: astits.DescriptorTagLocalTimeOffset, LocalTimeOffset: &astits.DescriptorLocalTimeOffset{Items: []*astits.DescriptorLocalTimeOffsetItem{
				{CountryCode: lang(r), CountryRegionID: uint8(r.intn(64)), LocalTimeOffset: time.Hour, TimeOfChange: toc, NextTimeOffset: 2 * time.Hour}}}}
			mx.AddElementaryStream(astits.PMTElementaryStream{ElementaryPID: 0x100, StreamType: astits.StreamTypeH264Video, ElementaryStreamDescriptors: []*astits.Descriptor{lto}})
			mx.SetPCRPID(0x100)
			var n int
			var err error
			if pn := safeCall(func() { n, err = mx.WriteTables() }); pn != nil {
				err = fmt.Errorf("panic: %v", pn)
			}
			out := w.buf.Bytes()
			if err != nil || n != 376 || len(out) != 376 {
				continue // refusing such a value is fine
			}
			rec.ev(M{"ev": "mvecs", "class": "muxer-tables-unencodable-value", "ok": true, "pat": ints(out[4:188]), "pmt": ints(out[192:376])})
		}
	case "corrupt": // C09: every single-bit flip of a unit, byte substitutions, bursts <= 32 bits, truncations, extensions
		for i := 0; i < sc.N; i++ {
			k := sc.K
			var ms []*tableModel
			for j, n := 0, r.pick(1, 1, 2); j < n; j++ {
				ms = append(ms, randTable(r, k, r.intn(3), r.pick(0, 8)))
			}
			big := k == "eit" && i == sc.N-1 // the last EIT unit of a scenario spans several packets: a descriptor loop of 1 KB and more
			if big {
				ms = []*tableModel{bigLoopEIT(r)}
			}
			ptr, trail := r.pick(0, 0, 2), r.pick(0, 1, 3)
			unit := []byte{byte(ptr)}
			for j := 0; j < ptr; j++ {
				unit = append(unit, 0xff)
			}
			for _, m := range ms {
				unit = append(unit, twinSection(m)...)
			}
			for j := 0; j < trail; j++ {
				unit = append(unit, 0xff)
			}
			if len(unit) > 180 && !big {
				continue // one packet per unit keeps the fault's position meaningful
			}
			if len(unit) > 4096 {
				continue
			}
			origTabs, oerrs, opan := demuxOutcome(k, unit)
			orig := []string{}
			for _, t := range origTabs {
				orig = append(orig, t["cdg"].(string))
			}
			// what the clean unit decodes to, against the values it was encoded from (the reference point of "altered")
			want, data := []M{}, []M{}
			for _, m := range ms {
				v := M{"k": m.K, "ext": m.Ext}
				projBody(v, m.K, m.PAT, m.PMT, m.SDT, m.NIT, m.EIT, m.TOT)
				want = append(want, v)
			}
			if !opan {
				dmxUnitData(k, unit, &data)
			}
			rec.ev(M{"ev": "corig", "class": "clean", "k": k, "b": ints(unit), "orig": orig, "errs": oerrs, "panic": opan, "nsec": len(ms), "want": want, "data": data})
			emit := func(class string, pos int, c []byte) {
				tabs, errs, pan := demuxOutcome(k, c)
				got := []string{}
				for _, t := range tabs {
					got = append(got, t["cdg"].(string))
				}
				rec.ev(M{"ev": "cvec", "class": class, "k": k, "pos": pos, "b": ints(c), "tabs": got, "errs": errs, "panic": pan})
			}
			for bit := 0; bit < len(unit)*8; bit++ {
				if big && r.intn(len(unit)/40) != 0 {
					continue // a sample of about 320 positions of a large unit
				}
				c := append([]byte(nil), unit...)
				c[bit/8] ^= 0x80 >> uint(bit%8)
				emit("bit-flip", bit, c)
				if !big && !opan && oerrs == 0 && len(orig) == len(ms) && bit%2 == i%2 {
					// the same fault as a damaged repetition of a unit this very Demuxer has just accepted
					tabs, errs, pan := demuxOutcomeAfterClean(k, unit, c, len(orig))
					got := []string{}
					for _, t := range tabs {
						got = append(got, t["cdg"].(string))
					}
					rec.ev(M{"ev": "cvec", "class": "bit-flip-in-a-repetition", "k": k, "pos": bit, "b": ints(c), "tabs": got, "errs": errs, "panic": pan})
				}
			}
			if len(ms) == 1 && !big {
				// the right checksum in the wrong byte order (least significant byte first), and each of its other byte permutations by rotation
				end := 1 + ptr + len(twinSection(ms[0]))
				for rot := 1; rot < 4; rot++ {
					c := append([]byte(nil), unit...)
					crc := append([]byte(nil), unit[end-4:end]...)
					for j := 0; j < 4; j++ {
						c[end-4+j] = crc[(j+rot)%4]
					}
					emit("crc-bytes-rotated", end-4, c)
				}
				c := append([]byte(nil), unit...)
				c[end-4], c[end-3], c[end-2], c[end-1] = unit[end-1], unit[end-2], unit[end-3], unit[end-4]
				emit("crc-byte-order-reversed", end-4, c)
			}
			for j := 0; j < 12; j++ {
				c := append([]byte(nil), unit...)
				p := r.intn(len(c))
				c[p] = byte(r.intn(256))
				emit("byte-substitution", p, c)
			}
			for j := 0; j < 12; j++ {
				c := append([]byte(nil), unit...)
				start, n := r.intn(len(c)*8), r.rangeInt(2, 32)
				for b := start; b < start+n && b < len(c)*8; b++ {
					if b == start || b == start+n-1 || r.boolean() {
						c[b/8] ^= 0x80 >> uint(b%8)
					}
				}
				emit("burst", start, c)
			}
			for j := 0; j < 8; j++ {
				cut := r.intn(len(unit))
				emit("truncation", cut, append([]byte(nil), unit[:cut]...))
			}
			for j := 0; j < 4; j++ {
				emit("extension", len(unit), append(append([]byte(nil), unit...), r.bytes(r.rangeInt(1, 8))...))
			}
		}
	default:
		fatal("unknown psi part %q", sc.Part)
	}
}

// dmxUnitData demuxes the unit through the public API and projects every delivered table field for field
func dmxUnitData(k string, unit []byte, out *[]M) {
	var stream []byte
	pid := pidForKind(k)
	if k == "pmt" {
		stream = append(stream, packetise(0, patUnitFor(pid, len(unit)), 0)...)
	}
	stream = append(stream, packetise(pid, unit, 3)...)
	dmx := astits.NewDemuxer(context.Background(), bytes.NewReader(stream), astits.DemuxerOptPacketSize(188))
	for i := 0; i < len(stream)/188+20; i++ {
		d, err := dmx.NextData()
		if err == astits.ErrNoMorePackets {
			return
		}
		if err != nil || int(d.PID) != pid {
			continue
		}
		v := M{"k": "none"}
		switch {
		case d.PAT != nil:
			v["k"], v["ext"] = "pat", int(d.PAT.TransportStreamID)
		case d.PMT != nil:
			v["k"], v["ext"] = "pmt", int(d.PMT.ProgramNumber)
		case d.SDT != nil:
			v["k"], v["ext"] = "sdt", int(d.SDT.TransportStreamID)
		case d.NIT != nil:
			v["k"], v["ext"] = "nit", int(d.NIT.NetworkID)
		case d.EIT != nil:
			v["k"], v["ext"] = "eit", int(d.EIT.ServiceID)
		case d.TOT != nil:
			v["k"], v["ext"] = "tot", 0
		}
		projBody(v, v["k"].(string), d.PAT, d.PMT, d.SDT, d.NIT, d.EIT, d.TOT)
		*out = append(*out, v)
	}
}
