package main

import "fmt"

// seeded random well-formed streams (the "random model" of C02's quantifier): 1..8 PIDs, PES with bounded and
// unbounded length, PSI units of 1..N sections over 1..6 packets, arbitrary split points (1-byte first/last chunks),
// stuffing in any packet, pointer_field 0..n, trailing 0xFF or exact fit, arbitrary interleaving.

type genUnit struct {
	spec    unitSpec
	chunks  []int
	partial bool // a PAT unit announcing only the first PMT PID (the later PAT units announce all of them)
}

func feasibleSLen(r *rng, tid int) int {
	switch kindOfTID(tid) {
	case "pat":
		lo := genMinPrograms
		if lo < 1 {
			lo = 1
		}
		return 9 + 4*r.rangeInt(lo, 6)
	case "pmt":
		return r.pick(13, 15, 18, 23, 40, r.rangeInt(15, 120), r.rangeInt(150, 400), r.rangeInt(600, 1000))
	case "sdt":
		return r.pick(12, 17, 19, 30, r.rangeInt(19, 200), r.rangeInt(300, 900))
	case "nit":
		return r.pick(13, 15, 20, r.rangeInt(15, 200))
	case "eit":
		return r.pick(15, 27, 29, 40, r.rangeInt(29, 250), r.rangeInt(400, 1000), r.rangeInt(1500, 3000))
	case "tot":
		return r.pick(11, 13, 20, r.rangeInt(13, 100))
	}
	return 20
}

var genMinPrograms = 1

// genEarlyPMT lets PMT PIDs start before their PAT is complete (joining a stream mid-way): such units are optional for a receiver
var genEarlyPMT = false

func tidForPID(r *rng, pid int, role string) int {
	switch role {
	case "pat":
		return 0
	case "pmt":
		return 2
	}
	switch pid {
	case 0x10:
		return r.pick(0x40, 0x41)
	case 0x11:
		return r.pick(0x42, 0x46)
	case 0x12:
		return r.pick(0x4e, 0x4f, 0x50, 0x6f)
	case 0x14:
		return 0x73
	}
	return 0x42
}

// partition splits total bytes into chunks of 1..184 with boundary bias; minFirst is the smallest legal first chunk,
// forbidden are cumulative offsets at which no chunk boundary may fall (interior section boundaries on PAT/PMT PIDs)
func partition(r *rng, total, minFirst int, forbidden map[int]bool) []int {
	for attempt := 0; attempt < 200; attempt++ {
		var chunks []int
		off := 0
		ok := true
		for off < total {
			rem := total - off
			max := 184
			if rem < max {
				max = rem
			}
			min := 1
			if off == 0 {
				min = minFirst
			}
			if min > max {
				ok = false
				break
			}
			var n int
			switch r.intn(8) {
			case 0:
				n = min
			case 1:
				n = max
			case 2:
				n = min + r.intn(3)
			case 3:
				n = max - r.intn(3)
			case 4:
				if rem > 1 && rem <= 185 {
					n = rem - 1 // leave a 1-byte last chunk
				} else {
					n = max
				}
			default:
				n = r.rangeInt(min, max)
			}
			if n < min {
				n = min
			}
			if n > max {
				n = max
			}
			if forbidden[off+n] && off+n < total {
				if n+1 <= max {
					n++
				} else if n-1 >= min {
					n--
				} else {
					ok = false
					break
				}
				if forbidden[off+n] && off+n < total {
					ok = false
					break
				}
			}
			chunks = append(chunks, n)
			off += n
		}
		if ok {
			return chunks
		}
	}
	// canonical fallback
	var chunks []int
	for off := 0; off < total; {
		n := total - off
		if n > 184 {
			n = 184
		}
		chunks = append(chunks, n)
		off += n
	}
	return chunks
}

func genStreamScenario(r *rng, sid string, maxPIDs, maxUnits int) streamScenario {
	sc := streamScenario{SID: sid, Kind: "demux", Seed: r.u64() >> 1}
	type pidState struct {
		pid   int
		role  string
		units []genUnit
		cc    int
	}
	var pids []*pidState
	pids = append(pids, &pidState{pid: 0, role: "pat"})
	npmt := r.intn(3)
	for i := 0; i < npmt; i++ {
		// PMT PIDs: ordinary ones, and PIDs of the DVB service-information range (H.222.0 allows any PID; ATSC carries a PMT on 0x10):
		// such a PID is PSI for the demuxer anyway, and still has to be learnt from the PAT to be flushed on completion
		p := [][]int{{0x1000, 0x1000, 0x1e, 0x13}, {0x1001, 0x1001, 0x1f}, {0x30}}[i][r.intn([]int{4, 3, 1}[i])]
		sc.PMTPIDs = append(sc.PMTPIDs, p)
		pids = append(pids, &pidState{pid: p, role: "pmt"})
	}
	genMinPrograms = npmt
	// a growing PAT: its first unit announces only the first program; the other PMT PIDs start after a complete PAT announced them
	growPAT := npmt >= 2 && r.intn(3) == 0
	for _, p := range []int{0x10, 0x11, 0x12, 0x14} {
		if len(pids) < maxPIDs && r.intn(3) == 0 {
			pids = append(pids, &pidState{pid: p, role: "si"})
		}
	}
	nes := r.rangeInt(1, 4)
	for i := 0; i < nes && len(pids) < maxPIDs; i++ {
		// some PIDs carry a 0x47 byte; 0x1020 / 0x1021 differ from the usual PMT PIDs in one bit only
		pids = append(pids, &pidState{pid: []int{0x100, 0x147, 0x747, 0x101, 0x1020, 0x1021}[(i+int(sc.Seed%6))%6], role: "es"})
	}
	uid := 0
	for _, ps := range pids {
		ps.cc = r.intn(16)
		nu := r.rangeInt(1, maxUnits)
		if growPAT && ps.role == "pat" && nu < 2 {
			nu = 2
		}
		for k := 0; k < nu; k++ {
			uid++
			var gu genUnit
			gu.partial = growPAT && ps.role == "pat" && k == 0
			if gu.partial {
				genMinPrograms = 1
			} else {
				genMinPrograms = npmt
			}
			if ps.role == "es" {
				hl := r.pick(6, 9, 14, 19)
				bounded := r.boolean() || hl == 6
				n := r.pick(0, 1, 2, r.rangeInt(1, 40), r.rangeInt(150, 200), 184-hl, 185-hl, 183-hl, 368-hl, r.rangeInt(200, 1200))
				gu.spec = unitSpec{ID: uid, PID: ps.pid, T: "pes", Total: hl + n, HL: hl, Bounded: bounded}
				gu.chunks = partition(r, hl+n, 1, nil)
			} else {
				nsec := r.pick(1, 1, 1, 2, 3)
				ptr := r.pick(0, 0, 0, 1, 5, r.intn(40))
				u := unitSpec{ID: uid, PID: ps.pid, T: "psi", Ptr: ptr}
				forb := map[int]bool{}
				laterFull := false
				off := 1 + ptr
				for s := 0; s < nsec; s++ {
					tid := tidForPID(r, ps.pid, ps.role)
					sl := feasibleSLen(r, tid)
					if gu.partial && (s == 0 || r.boolean()) {
						sl = 13
					} else if gu.partial {
						sl = 9 + 4*r.rangeInt(npmt, 6) // only a later section of this unit announces the other programs
						laterFull = true
					}
					u.Secs = append(u.Secs, secSpec{TID: tid, SLen: sl, Ident: 1 + (uid*37+s*7)%60000})
					off += 3 + sl
					if s < nsec-1 && (ps.role == "pat" || ps.role == "pmt") {
						forb[off] = true
					}
				}
				// trailing stuffing or exact fit: choose so that the unit ends on a packet boundary or not
				switch r.intn(4) {
				case 0:
					u.Trail = 0
				case 1:
					u.Trail = (184 - off%184) % 184
				default:
					u.Trail = r.intn(30)
				}
				u.Total = off + u.Trail
				// ISO 13818-1 2.4.4.1: the packet with payload_unit_start carries the first byte of the section
				part := gu.partial && !laterFull
				gu = genUnit{spec: u, chunks: partition(r, u.Total, ptr+2, forb), partial: part}
			}
			ps.units = append(ps.units, gu)
		}
	}
	// interleave: PMT PIDs wait until the first PAT unit is complete
	type cursor struct{ u, c, off int }
	cur := map[int]*cursor{}
	for _, ps := range pids {
		cur[ps.pid] = &cursor{}
	}
	patDone := false
	fullPatDone := !growPAT
	remaining := func(ps *pidState) bool { return cur[ps.pid].u < len(ps.units) }
	for {
		var cands []*pidState
		for _, ps := range pids {
			if !remaining(ps) {
				continue
			}
			if ps.role == "pmt" && !patDone && !(genEarlyPMT && r.intn(3) == 0) {
				continue
			}
			if ps.role == "pmt" && !fullPatDone && ps.pid != sc.PMTPIDs[0] && !(genEarlyPMT && r.intn(3) == 0) {
				continue
			}
			cands = append(cands, ps)
		}
		if len(cands) == 0 {
			break
		}
		ps := cands[r.intn(len(cands))]
		if r.intn(3) != 0 { // some burstiness
			for _, c := range cands {
				if c.pid == 0 && !patDone {
					ps = c
				}
			}
		}
		c := cur[ps.pid]
		gu := &ps.units[c.u]
		n := gu.chunks[c.c]
		p := pktSpec{PID: ps.pid, CC: ps.cc, PUSI: c.c == 0, U: gu.spec.ID, Off: c.off, N: n}
		if n <= 182 && r.intn(6) == 0 {
			p.RAI = true
		}
		if n <= 176 && r.intn(8) == 0 {
			p.PCR = true
		}
		if n <= 160 && r.intn(8) == 0 {
			p.PD = r.rangeInt(1, 12)
		}
		p.Prio = r.intn(10) == 0
		if !p.PUSI && gu.spec.T == "pes" && c.off >= gu.spec.HL && n >= 9 && r.intn(4) == 0 {
			p.SL = true // the chunk begins with a start code (00 00 01 ..), as video elementary streams do all the time
		}
		sc.Pkts = append(sc.Pkts, p)
		ps.cc = (ps.cc + 1) % 16
		c.off += n
		c.c++
		if c.c == len(gu.chunks) {
			if ps.pid == 0 && c.u == 0 {
				patDone = true
			}
			if ps.pid == 0 && !gu.partial {
				fullPatDone = true
			}
			c.u++
			c.c, c.off = 0, 0
		}
		// occasional null / adaptation-only packets in between
		switch r.intn(25) {
		case 0:
			sc.Pkts = append(sc.Pkts, pktSpec{PID: 0x1fff, K: "null"})
		case 1:
			sc.Pkts = append(sc.Pkts, pktSpec{PID: ps.pid, CC: (ps.cc + 15) % 16, K: "afonly"})
		}
	}
	for _, ps := range pids {
		for _, gu := range ps.units {
			sc.Units = append(sc.Units, gu.spec)
		}
	}
	return sc
}

func genStreams(seed uint64, n, max int, emit func(interface{})) {
	r := newRng(seed)
	for i := 0; i < n; i++ {
		maxPIDs := r.rangeInt(2, 8)
		emit(genStreamScenario(r, fmt.Sprintf("dr-%d-%d", seed, i), maxPIDs, max))
	}
}

// genPairs: random streams with random multi-fault patterns (C06): duplicates of first / middle / last packets,
// of single-packet units, loss bursts of 1..15 packets of one PID
func genPairs(seed uint64, n, max int, emit func(interface{})) {
	r := newRng(seed ^ 0x5151)
	for i := 0; i < n; i++ {
		if i%5 == 3 {
			emit(genLongDups(r, fmt.Sprintf("pl-%d-%d", seed, i)))
			continue
		}
		if i%10 == 6 {
			emit(genLoss15(r, fmt.Sprintf("pf-%d-%d", seed, i)))
			continue
		}
		sc := genStreamScenario(r, fmt.Sprintf("pr-%d-%d", seed, i), r.rangeInt(2, 6), max)
		sc.Kind = "pair"
		mode := r.intn(3) // 0 dups only, 1 drops only, 2 both
		var out []pktSpec
		burstPID, burstLeft := -1, 0
		for _, p := range sc.Pkts {
			if p.K != "" {
				out = append(out, p)
				continue
			}
			if burstLeft > 0 && p.PID == burstPID {
				p.F = "drop"
				burstLeft--
				out = append(out, p)
				continue
			}
			x := r.intn(100)
			switch {
			case mode != 1 && x < 6:
				out = append(out, p)
				d := p
				d.F = "dup"
				d.DP = p.PCR && r.boolean()
				out = append(out, d)
			case mode != 0 && x >= 6 && x < 10:
				p.F = "drop"
				out = append(out, p)
				if r.intn(3) == 0 {
					burstPID, burstLeft = p.PID, r.rangeInt(1, 14)
				}
			default:
				out = append(out, p)
			}
		}
		sc.Pkts = out
		emit(sc)
	}
}

// genLoss15: exactly 15 packets in a row are lost inside a long elementary-stream unit (or across two units): the packet after the gap
// carries the counter of the last packet before it - still "fewer than 16", and not a duplicate (its payload differs)
func genLoss15(r *rng, sid string) streamScenario {
	var sc streamScenario
	for try := 0; try < 80; try++ {
		sc = genStreamScenario(r, sid, 2, 14)
		cnt := map[int]int{}
		for _, p := range sc.Pkts {
			if p.K == "" {
				cnt[p.PID]++
			}
		}
		best := -1
		for pid, c := range cnt {
			if pid >= 0x100 && pid != 0x1000 && pid != 0x1001 && c >= 22 {
				best = pid
			}
		}
		if best < 0 {
			continue
		}
		start, k := r.rangeInt(1, cnt[best]-18), 0
		for i := range sc.Pkts {
			if sc.Pkts[i].K == "" && sc.Pkts[i].PID == best {
				if k >= start && k < start+15 {
					sc.Pkts[i].F = "drop"
				}
				k++
			}
		}
		break
	}
	sc.Kind = "pair"
	return sc
}

// genLongDups: one long elementary stream (the continuity counter wraps several times) with two or three legal duplicates whose
// duplicated packets carry the same counter value (16, 32 .. packets apart)
func genLongDups(r *rng, sid string) streamScenario {
	var sc streamScenario
	for try := 0; try < 50; try++ {
		sc = genStreamScenario(r, sid, 2, 14)
		cnt := map[int]int{}
		for _, p := range sc.Pkts {
			if p.K == "" {
				cnt[p.PID]++
			}
		}
		best := -1
		for pid, c := range cnt {
			if pid != 0 && c >= 36 {
				best = pid
			}
		}
		if best < 0 {
			continue
		}
		// positions (among the PID's packets) of non-PUSI packets
		var idx []int
		k := 0
		for i, p := range sc.Pkts {
			if p.K == "" && p.PID == best {
				if !p.PUSI {
					idx = append(idx, i)
				}
				k++
			}
		}
		var chosen []int
		for _, a := range idx {
			for _, b := range idx {
				if b > a && sc.Pkts[a].CC == sc.Pkts[b].CC {
					chosen = []int{a, b}
				}
			}
			if chosen != nil && r.intn(3) == 0 {
				break
			}
		}
		if chosen == nil {
			continue
		}
		var out []pktSpec
		for i, p := range sc.Pkts {
			out = append(out, p)
			if i == chosen[0] || i == chosen[1] {
				d := p
				d.F = "dup"
				out = append(out, d)
			}
		}
		sc.Pkts = out
		break
	}
	sc.Kind = "pair"
	return sc
}
