package main

import (
	"bufio"
	"bytes"
	"context"
	"encoding/json"
	"errors"
	"io"

	"github.com/asticode/go-astits"
)

// ---------- the reading side against spec/Reader.tla (trace specification spec/Mon_Reader.tla) ----------
//
// One real Demuxer per configuration: npk frames of S bytes (sync byte, S-188 ignored bytes, the packet's other 187 bytes) plus `extra`
// bytes of one more frame; no byte other than the first of a frame is 0x47, so that the byte counts are all the size detection can
// go by (what the specification models).  Frame i carries PID 0x100+i.  Only the result of every NextPacket call is logged.

type rmodelScenario struct {
	SID    string `json:"sid"`
	S      int    `json:"S"`
	Kind   string `json:"rkind"` // seek | bufio | plain
	NPK    int    `json:"npk"`
	Extra  int    `json:"extra"`
	Auto   bool   `json:"auto"`
	Sched  []int  `json:"sched"` // sizes of the reads the underlying reader grants, cyclically (empty = as asked)
	Name   string `json:"schedname"`
	Cancel int    `json:"cancel"` // the context is cancelled before this call (0-based; -1 = never)
}

func rmodelStream(S, npk, extra int) []byte {
	var out []byte
	for i := 0; i <= npk; i++ {
		f := make([]byte, S)
		for j := range f {
			f[j] = byte(0x80 | (i*7+j)&0x3f)
		}
		f[0] = 0x47
		h := S - 187 // the packet's bytes after the sync byte start here
		pid := 0x100 + i
		f[h], f[h+1], f[h+2] = byte(pid>>8&0x1f), byte(pid), 0x10|byte(i&15)
		if i == npk {
			f = f[:extra]
		}
		out = append(out, f...)
	}
	return out
}

// schedReader grants the reads of the schedule, hiding every optional interface (a "plain" reader)
type schedReader struct {
	r     io.Reader
	sched []int
	k     int
}

func (s *schedReader) Read(p []byte) (int, error) {
	if len(s.sched) > 0 && len(p) > 0 {
		n := s.sched[s.k%len(s.sched)]
		s.k++
		if n < len(p) {
			p = p[:n]
		}
	}
	return s.r.Read(p)
}

// schedSeekReader is the same with Seek
type schedSeekReader struct {
	schedReader
	rs io.ReadSeeker
}

func (s *schedSeekReader) Seek(off int64, whence int) (int64, error) { return s.rs.Seek(off, whence) }

func runRModel(line []byte, rec *recorder) {
	var sc rmodelScenario
	if err := json.Unmarshal(line, &sc); err != nil {
		fatal("bad rmodel scenario: %v", err)
	}
	stream := rmodelStream(sc.S, sc.NPK, sc.Extra)
	rec.ev(M{"ev": "rreset", "t": sc.SID, "S": sc.S, "kind": sc.Kind, "npk": sc.NPK, "extra": sc.Extra, "auto": sc.Auto, "sched": sc.Name})
	var r io.Reader
	br := bytes.NewReader(stream)
	switch sc.Kind {
	case "seek":
		r = &schedSeekReader{schedReader{r: br, sched: sc.Sched}, br}
	case "plain":
		r = &schedReader{r: br, sched: sc.Sched}
	case "bufio":
		r = bufio.NewReaderSize(&schedReader{r: br, sched: sc.Sched}, 4096)
	default:
		fatal("unknown reader kind %q", sc.Kind)
	}
	ctx, cancel := context.WithCancel(context.Background())
	defer cancel()
	opts := []func(*astits.Demuxer){astits.DemuxerOptPacketSize(sc.S)}
	if sc.Auto {
		opts = nil
	}
	dmx := astits.NewDemuxer(ctx, r, opts...)
	for k := 0; k < sc.NPK+6; k++ {
		if k == sc.Cancel {
			cancel()
			rec.ev(M{"ev": "rcancel"})
		}
		res := -3
		if pn := safeCall(func() {
			p, err := dmx.NextPacket()
			switch {
			case err == astits.ErrNoMorePackets:
				res = -2
			case errors.Is(err, context.Canceled):
				res = -5
			case err != nil:
				res = -3
			default:
				res = int(p.Header.PID) - 0x100
			}
		}); pn != nil {
			res = -4
		}
		rec.ev(M{"ev": "rcall", "r": res})
	}
}
