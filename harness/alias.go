package main

import (
	"bytes"
	"context"
	"encoding/json"
	"fmt"
	"reflect"
	"runtime"
	"sort"
	"sync"
	"unsafe"

	"github.com/asticode/go-astits"
)

// ---------- C16: returned results are never mutated later; independent instances do not interfere ----------

type span struct{ lo, hi uint64 }

// byteSpans collects the backing-array ranges of every []byte reachable from v
func byteSpans(v reflect.Value, out *[]span, depth int) {
	if depth > 12 {
		return
	}
	switch v.Kind() {
	case reflect.Ptr, reflect.Interface:
		if !v.IsNil() {
			byteSpans(v.Elem(), out, depth+1)
		}
	case reflect.Struct:
		if v.Type().PkgPath() == "time" {
			return
		}
		for i := 0; i < v.NumField(); i++ {
			if v.Type().Field(i).PkgPath == "" { // exported
				byteSpans(v.Field(i), out, depth+1)
			}
		}
	case reflect.Slice:
		if v.IsNil() || v.Len() == 0 && v.Cap() == 0 {
			return
		}
		if v.Type().Elem().Kind() == reflect.Uint8 {
			p := uint64(v.Pointer())
			*out = append(*out, span{p, p + uint64(v.Cap())})
			return
		}
		for i := 0; i < v.Len(); i++ {
			byteSpans(v.Index(i), out, depth+1)
		}
	}
}

func spansOf(x interface{}) []span {
	var s []span
	byteSpans(reflect.ValueOf(x), &s, 0)
	return s
}

func jsonDigest(x interface{}) string {
	b, _ := json.Marshal(x)
	return digest(b)
}

type poolEvent struct {
	op   string
	item uint64
	sp   span
}

// poolLog records bytesPool activity; the hook runs inside get (after the item is taken) and put (before it is given back)
type poolLog struct {
	mu  sync.Mutex
	evs []poolEvent
	cb  func(poolEvent)
}

var thePoolLog = &poolLog{}

func installPoolHook() {
	astits.VerifSetPoolHook(func(op string, item uintptr, lo, hi uintptr) {
		e := poolEvent{op, uint64(item), span{uint64(lo), uint64(hi)}}
		thePoolLog.mu.Lock()
		thePoolLog.evs = append(thePoolLog.evs, e)
		cb := thePoolLog.cb
		thePoolLog.mu.Unlock()
		if cb != nil {
			cb(e)
		}
	})
}

func (p *poolLog) take() []poolEvent {
	p.mu.Lock()
	defer p.mu.Unlock()
	e := p.evs
	p.evs = nil
	return e
}

// rankSpans rewrites addresses as ranks (order preserving) so that TLC's 32-bit integers can carry them
func rankSpans(events []M) {
	set := map[uint64]bool{}
	walk := func(f func(s *span)) {
		for _, e := range events {
			for _, k := range []string{"ranges", "callpool", "rbuf"} {
				if v, ok := e[k].([]span); ok {
					for i := range v {
						f(&v[i])
					}
				}
			}
		}
	}
	walk(func(s *span) { set[s.lo], set[s.hi] = true, true })
	var all []uint64
	for a := range set {
		all = append(all, a)
	}
	sort.Slice(all, func(i, j int) bool { return all[i] < all[j] })
	rank := map[uint64]int{}
	for i, a := range all {
		rank[a] = i + 1
	}
	for _, e := range events {
		for _, k := range []string{"ranges", "callpool", "rbuf"} {
			if v, ok := e[k].([]span); ok {
				out := [][]int{}
				for _, s := range v {
					out = append(out, []int{rank[s.lo], rank[s.hi]})
				}
				e[k] = out
			}
		}
	}
}

type aliasScenario struct {
	streamScenario
	Streams int `json:"streams"` // number of demuxers run interleaved / concurrently
	Conc    int `json:"conc"`    // goroutines for the concurrent part (0 = none)
}

// runAlias, sequential part: several demuxers over different streams, calls interleaved by a seeded schedule; every returned
// value gets a handle; its digest is re-taken after later calls and at the end
func runAlias(line []byte, rec *recorder) {
	var sc aliasScenario
	if err := json.Unmarshal(line, &sc); err != nil {
		fatal("bad alias scenario: %v", err)
	}
	installPoolHook()
	r := newRng(sc.Seed ^ 0xa11a5)
	n := sc.Streams
	if n < 1 {
		n = 1
	}
	var streams [][]byte
	for i := 0; i < n; i++ {
		s := genStreamScenario(r, fmt.Sprintf("%s-s%d", sc.SID, i), r.rangeInt(2, 6), 3)
		streams = append(streams, buildStream(s.Units, s.Pkts, s.PMTPIDs, s.Seed, true).bytes)
	}
	// one more instance reads DVB tables of every kind carrying descriptors of every tag: each retained byte slice of each parser
	streams = append(streams, richStream(r, 24))
	n++
	// ... and one reads units of more than 64 KB (unbounded video PES of 70 000 bytes) followed by small ones: what was returned for the large
	// unit stays what it was while the next units are assembled
	{
		var big []byte
		cc := 0
		for u := 0; u < 4; u++ {
			unit := append([]byte{0, 0, 1, 0xe0, 0, 0, 0x80, 0, 0}, r.bytes([]int{70000, 300, 66000, 50}[u])...)
			big = append(big, packetise(0x200, unit, cc)...)
			cc += (len(unit) + 183) / 184
		}
		streams = append(streams, big)
		n++
	}
	var events []M
	events = append(events, M{"ev": "reset", "t": sc.SID, "kind": "alias", "streams": n})
	// independence of instances used one after the other: tiny inputs (where packet-size detection sees less than its whole window)
	// give the same outcome whatever other Demuxers did before
	var probes [][]byte
	for _, l := range []int{0, 1, 187, 188, 189, 190, 191, 192, 193, 200, 376} {
		if l <= len(streams[0]) {
			probes = append(probes, streams[0][:l])
		}
	}
	if len(streams[0]) >= 188 {
		probes = append(probes, reframe(streams[0][:188], 192, r), reframe(streams[0][:188], 204, r))
	}
	probe := func(phase int) {
		for k, in := range probes {
			seq := []string{}
			dmx := astits.NewDemuxer(context.Background(), bytes.NewReader(in))
			for c := 0; c < 4; c++ {
				var p *astits.Packet
				var err error
				if pn := safeCall(func() { p, err = dmx.NextPacket() }); pn != nil {
					seq = append(seq, "panic")
					break
				}
				if err != nil {
					seq = append(seq, "err:"+errClass(err)+":"+digest([]byte(err.Error())))
					if err == astits.ErrNoMorePackets {
						break
					}
					continue
				}
				seq = append(seq, "pkt:"+jsonDigest(p))
			}
			ev := "again"
			if phase == 0 {
				ev = "first"
			}
			events = append(events, M{"ev": ev, "inst": 1000 + k, "phase": phase, "seq": seq})
		}
		thePoolLog.take()
	}
	probe(0)
	type handle struct {
		h   int
		val interface{}
	}
	var handles []handle
	dmx := make([]*astits.Demuxer, n)
	for i := range dmx {
		dmx[i] = astits.NewDemuxer(context.Background(), bytes.NewReader(streams[i]))
	}
	done := make([]bool, n)
	thePoolLog.take()
	live := n
	for call := 0; live > 0 && call < 100000; call++ {
		i := r.intn(n)
		if done[i] {
			continue
		}
		usePacket := r.intn(4) == 0
		var val interface{}
		var err error
		if usePacket {
			var p *astits.Packet
			p, err = dmx[i].NextPacket()
			val = p
		} else {
			var d *astits.DemuxerData
			d, err = dmx[i].NextData()
			val = d
		}
		pe := thePoolLog.take()
		var callpool []span
		for _, e := range pe {
			events = append(events, M{"ev": "pool", "op": e.op, "item": int(e.item % 1000003), "inst": i})
			callpool = append(callpool, e.sp)
		}
		if err == astits.ErrNoMorePackets {
			done[i] = true
			live--
			continue
		}
		if err != nil {
			continue
		}
		lo, hi := astits.VerifReadBufferRange(dmx[i])
		h := len(handles)
		handles = append(handles, handle{h, val})
		kind := "data"
		if usePacket {
			kind = "packet"
		}
		events = append(events, M{"ev": "ret", "inst": i, "h": h, "kind": kind, "dg": jsonDigest(val), "ranges": spansOf(val), "callpool": callpool,
			"rbuf": []span{{uint64(lo), uint64(hi)}}})
		// re-take the digests of the most recent handles after this call
		for k := len(handles) - 2; k >= 0 && k >= len(handles)-9; k-- {
			events = append(events, M{"ev": "chk", "h": handles[k].h, "dg": jsonDigest(handles[k].val), "when": "later"})
		}
		if call%50 == 0 {
			runtime.GC()
		}
	}
	runtime.GC()
	for _, hd := range handles {
		events = append(events, M{"ev": "chk", "h": hd.h, "dg": jsonDigest(hd.val), "when": "end"})
	}
	// instances used in turn, each rewound once: every instance delivers what it delivers when it is used alone in the same way
	{
		// ... among them one whose units have no payload byte at all (unit start packets filled by their adaptation field): nothing is
		// delivered for it, before and after the others have used the shared payload pool
		stuff := []byte{}
		for k := 0; k < 3; k++ {
			p := make([]byte, 188)
			p[0], p[1], p[2], p[3], p[4], p[5] = 0x47, 0x40|0x01, 0x23, 0x30|byte(k), 183, 0
			for j := 6; j < 188; j++ {
				p[j] = 0xff
			}
			stuff = append(stuff, p...)
		}
		// (used right after an instance that delivers one small PES per call, so that the pool item last held a PES)
		pesOnly := []byte{}
		for k := 0; k < 12; k++ {
			p := make([]byte, 188)
			p[0], p[1], p[2], p[3] = 0x47, 0x40|0x02, 0x00, 0x10|byte(k)
			copy(p[4:], []byte{0, 0, 1, 0xe0, 0, 0, 0x80, 0, 0})
			for j := 13; j < 188; j++ {
				p[j] = byte(0x10 + k)
			}
			pesOnly = append(pesOnly, p...)
		}
		strs := append([][]byte{pesOnly, stuff}, streams...)
		n := len(strs)
		plan := make([]int, n)
		for i := range plan {
			plan[i] = r.intn(8)
		}
		seqOf := func(d *astits.DemuxerData, err error) string {
			if err != nil {
				return "err:" + errClass(err)
			}
			return "d:" + jsonDigest(d)
		}
		for i := 0; i < n; i++ { // alone
			d := astits.NewDemuxer(context.Background(), bytes.NewReader(strs[i]))
			for c := 0; c < plan[i]; c++ {
				d.NextData()
			}
			d.Rewind()
			seq := []string{}
			for c := 0; c < len(strs[i])/188+20; c++ {
				x, err := d.NextData()
				seq = append(seq, seqOf(x, err))
				if err == astits.ErrNoMorePackets {
					break
				}
			}
			events = append(events, M{"ev": "first", "inst": 2000 + i, "phase": 0, "seq": seq})
		}
		ds := make([]*astits.Demuxer, n)
		seqs := make([][]string, n)
		fin := make([]bool, n)
		for i := range ds {
			ds[i] = astits.NewDemuxer(context.Background(), bytes.NewReader(strs[i]))
		}
		for c := 0; c < 8; c++ {
			for i := range ds {
				if c < plan[i] {
					ds[i].NextData()
				}
			}
		}
		for i := range ds {
			ds[i].Rewind()
		}
		for left := n; left > 0; {
			for i := range ds {
				if fin[i] {
					continue
				}
				x, err := ds[i].NextData()
				seqs[i] = append(seqs[i], seqOf(x, err))
				if err == astits.ErrNoMorePackets || len(seqs[i]) > len(strs[i])/188+20 {
					fin[i] = true
					left--
				}
			}
		}
		for i := range ds {
			events = append(events, M{"ev": "again", "inst": 2000 + i, "phase": 1, "seq": seqs[i]})
		}
		// the payload-less instance once more, several times, each time right behind a fresh instance that has just delivered two PES
		for rep := 0; rep < 8; rep++ {
			dp := astits.NewDemuxer(context.Background(), bytes.NewReader(pesOnly))
			dp.NextData()
			dp.NextData()
			d := astits.NewDemuxer(context.Background(), bytes.NewReader(stuff))
			seq := []string{}
			for c := 0; c < 10; c++ {
				x, err := d.NextData()
				seq = append(seq, seqOf(x, err))
				if err == astits.ErrNoMorePackets {
					break
				}
			}
			events = append(events, M{"ev": "again", "inst": 2001, "phase": 2 + rep, "seq": seq})
		}
		thePoolLog.take()
	}
	probe(1)
	for _, sz := range []int{192, 204, 189} { // other framings detected by other instances in between
		d2 := astits.NewDemuxer(context.Background(), bytes.NewReader(reframe(streams[0], sz, r)))
		for c := 0; c < 3; c++ {
			d2.NextPacket()
		}
		probe(2)
	}
	// the Muxer never modifies the caller's payload bytes (any header / AF class, any length)
	{
		w := &recWriter{}
		m := astits.NewMuxer(context.Background(), w, astits.MuxerOptTablesRetransmitPeriod(3))
		m.AddElementaryStream(astits.PMTElementaryStream{ElementaryPID: 256, StreamType: astits.StreamTypeH264Video})
		m.SetPCRPID(256)
		for k := 0; k < 30; k++ {
			hdr := buildPESHeader(muxHdrClasses[r.intn(len(muxHdrClasses))], 0, r)
			// the payload is a window of a larger caller buffer: nothing of that buffer may change, inside or outside the window
			n := r.pick(1, 10, 183, 184, 185, 400, 2000)
			buf := r.bytes(n + 300)
			payload := buf[100 : 100+n]
			before := digest(buf)
			m.WriteData(&astits.MuxerData{PID: 256, AdaptationField: buildAF(muxAFClasses[r.intn(len(muxAFClasses))], r), PES: &astits.PESData{Header: hdr, Data: payload}})
			events = append(events, M{"ev": "payload", "api": "WriteData", "before": before, "after": digest(buf)})
		}
		for k := 0; k < 20; k++ {
			n := r.pick(0, 1, 10, 100, 183, 184)
			buf := r.bytes(n + 300)
			before := digest(buf)
			p := &astits.Packet{Header: astits.PacketHeader{PID: 0x1ffe, HasPayload: true, ContinuityCounter: uint8(k)}, Payload: buf[50 : 50+n]}
			if k%3 == 0 && n <= 170 {
				p.Header.HasAdaptationField = true
				p.AdaptationField = &astits.PacketAdaptationField{HasPCR: true, PCR: &astits.ClockReference{Base: cr33(r)}}
			}
			m.WritePacket(p)
			events = append(events, M{"ev": "payload", "api": "WritePacket", "before": before, "after": digest(buf)})
		}
	}
	rankSpans(events)
	for _, e := range events {
		rec.ev(e)
	}
	if sc.Conc > 0 {
		runConcurrent(&sc, rec, r)
	}
}

// richStream: a PAT, then PMT / SDT / NIT / EIT / TOT units with random descriptors (all tags) on their PIDs
func richStream(r *rng, units int) []byte {
	cc := map[int]int{}
	var out []byte
	emit := func(pid int, unit []byte) {
		out = append(out, packetise(pid, unit, cc[pid])...)
		cc[pid] += (len(unit) + 183) / 184
	}
	emit(0, patFor(0x1000))
	for i := 0; i < units; i++ {
		k := tableKinds[1+r.intn(len(tableKinds)-1)]
		m := randTable(r, k, r.intn(3), 40)
		emit(pidForKind(k), append([]byte{0}, twinSection(m)...))
		if i%3 == 1 {
			// an adaptation-only packet (no payload) carrying transport private data: what NextPacket returned for it stays what it was
			p := make([]byte, 188)
			n := 1 + r.intn(40)
			p[0], p[1], p[2], p[3], p[4], p[5], p[6] = 0x47, 0x1a, 0xbc, 0x20, 183, 0x02, byte(n)
			copy(p[7:], r.bytes(n))
			for j := 7 + n; j < 188; j++ {
				p[j] = 0xff
			}
			out = append(out, p...)
		}
	}
	return out
}

// a worker's job is prepared up front (single-threaded: the harness's generators are not goroutine-safe) and then executed,
// alone or concurrently, touching only the library
type concPlan struct {
	id     int
	stream []byte
	mux    []*astits.MuxerData
}

func prepareConc(seed uint64, id int) *concPlan {
	r := newRng(seed ^ uint64(id)*0x9e37)
	s := genStreamScenario(r, fmt.Sprintf("c%d", id), r.rangeInt(2, 6), 3)
	p := &concPlan{id: id, stream: buildStream(s.Units, s.Pkts, s.PMTPIDs, s.Seed, true).bytes}
	// ... followed by DVB tables of every kind with descriptors of every tag (dates and times, language codes, texts): package-level state
	// of any of their parsers would be shared by the workers
	p.stream = append(p.stream, richStream(r, 10)...)
	for k := 0; k < 12; k++ {
		p.mux = append(p.mux, &astits.MuxerData{PID: uint16(256 + id%8), PES: &astits.PESData{Header: buildPESHeader("pts", 0, r), Data: r.bytes(r.pick(5, 184, 500))}})
	}
	return p
}

// cloneMux: WriteData mutates the MuxerData it is given (stream id, stuffing), so every execution gets its own copy
func cloneMux(d *astits.MuxerData) *astits.MuxerData {
	h := *d.PES.Header
	o := *h.OptionalHeader
	pts := *o.PTS
	o.PTS = &pts
	h.OptionalHeader = &o
	return &astits.MuxerData{PID: d.PID, PES: &astits.PESData{Header: &h, Data: append([]byte(nil), d.PES.Data...)}}
}

func execConc(p *concPlan) []string {
	var out []string
	dmx := astits.NewDemuxer(context.Background(), bytes.NewReader(p.stream))
	for k := 0; k < len(p.stream)/188+50; k++ {
		var d *astits.DemuxerData
		var err error
		if pn := safeCall(func() { d, err = dmx.NextData() }); pn != nil {
			out = append(out, "panic") // a panic inside the library is a result like any other: the monitor compares it with the solo run
			break
		}
		if err == astits.ErrNoMorePackets {
			break
		}
		if err != nil {
			out = append(out, "err")
			continue
		}
		out = append(out, jsonDigest(d))
	}
	w := &recWriter{}
	pid := uint16(256 + p.id%8)
	m := astits.NewMuxer(context.Background(), w, astits.MuxerOptTablesRetransmitPeriod(2))
	m.AddElementaryStream(astits.PMTElementaryStream{ElementaryPID: pid, StreamType: astits.StreamTypeAACAudio})
	m.SetPCRPID(pid)
	for _, d := range p.mux {
		m.WriteData(cloneMux(d))
	}
	out = append(out, digest(w.buf.Bytes()))
	return out
}

// runConcurrent: every worker's results alone, then all workers at once from different goroutines (run under -race by the orchestrator)
func runConcurrent(sc *aliasScenario, rec *recorder, r *rng) {
	n := sc.Conc
	plans := make([]*concPlan, n)
	for i := 0; i < n; i++ {
		plans[i] = prepareConc(sc.Seed, i)
	}
	solo := make([][]string, n)
	for i := 0; i < n; i++ {
		solo[i] = execConc(plans[i])
		rec.ev(M{"ev": "solo", "inst": i, "seq": solo[i]})
	}
	// pool events of the concurrent phase are recorded from inside the hook: a get is logged after the item has been taken
	// out of the pool and a put before it is given back, so the recorder's order is a linearisation of the holders
	thePoolLog.mu.Lock()
	thePoolLog.cb = func(e poolEvent) {
		rec.ev(M{"ev": "pool", "op": e.op, "item": int(e.item % 1000003), "inst": -1})
	}
	thePoolLog.mu.Unlock()
	conc := make([][]string, n)
	var wg sync.WaitGroup
	start := make(chan struct{})
	for i := 0; i < n; i++ {
		wg.Add(1)
		go func(i int) {
			defer wg.Done()
			<-start
			for k := 0; k < i%5; k++ {
				runtime.Gosched() // staggered start
			}
			if i%3 == 0 {
				runtime.GC()
			}
			conc[i] = execConc(plans[i])
		}(i)
	}
	close(start)
	wg.Wait()
	thePoolLog.mu.Lock()
	thePoolLog.cb = nil
	thePoolLog.mu.Unlock()
	thePoolLog.take()
	for i := 0; i < n; i++ {
		rec.ev(M{"ev": "conc", "inst": i, "seq": conc[i]})
	}
	rec.ev(M{"ev": "concdone", "workers": n})
}

var _ = unsafe.Pointer(nil)
