package main

import (
	"bytes"
	"context"
	"encoding/json"
	"fmt"

	"github.com/asticode/go-astits"
)

// ---------- C12: PES headers and timestamps ----------

type pesScenario struct {
	SID  string `json:"sid"`
	Kind string `json:"kind"`
	Seed uint64 `json:"seed"`
	Part string `json:"part"`
	N    int    `json:"n"`
}

// twinPESHeader builds the on-wire PES header for a header struct the way ISO 13818-1 2.4.3.6 lays it out, including what
// the library's writer does not support (CRC, header stuffing, any PES_packet_length).  It only builds stimuli: every
// vector it produces is re-derived by TLC (PESEncode.tla) before anything is judged.
// noOptionalHeader: the stream ids whose PES packets carry no optional header (ISO/IEC 13818-1 2.4.3.7)
func noOptionalHeader(sid uint8) bool {
	switch sid {
	case 0xbc, 0xbe, 0xbf, 0xf0, 0xf1, 0xf2, 0xf8, 0xff:
		return true
	}
	return false
}

func twinPESHeader(h *astits.PESHeader, plen, hstuff int) []byte {
	b := []byte{0, 0, 1, h.StreamID, byte(plen >> 8), byte(plen)}
	o := h.OptionalHeader
	if o == nil || noOptionalHeader(h.StreamID) {
		return b
	}
	bit := func(v bool) byte {
		if v {
			return 1
		}
		return 0
	}
	var d []byte
	if o.PTSDTSIndicator == 2 {
		d = append(d, tsBytes(2, uint64(o.PTS.Base))...)
	} else if o.PTSDTSIndicator == 3 {
		d = append(d, tsBytes(3, uint64(o.PTS.Base))...)
		d = append(d, tsBytes(1, uint64(o.DTS.Base))...)
	}
	if o.HasESCR {
		v := uint64(o.ESCR.Base)
		e := uint64(o.ESCR.Extension)
		x := uint64(3)<<46 | (v>>30&7)<<43 | 1<<42 | (v>>15&0x7fff)<<27 | 1<<26 | (v&0x7fff)<<11 | 1<<10 | (e&0x1ff)<<1 | 1
		for i := 5; i >= 0; i-- {
			d = append(d, byte(x>>(8*uint(i))))
		}
	}
	if o.HasESRate {
		x := uint32(1)<<23 | (o.ESRate&0x3fffff)<<1 | 1
		d = append(d, byte(x>>16), byte(x>>8), byte(x))
	}
	if o.HasDSMTrickMode {
		t := o.DSMTrickMode
		c := t.TrickModeControl & 7
		var tb byte
		switch c {
		case 0, 3:
			tb = c<<5 | t.FieldID&3<<3 | t.IntraSliceRefresh&1<<2 | t.FrequencyTruncation&3
		case 2:
			tb = c<<5 | t.FieldID&3<<3 | 7
		case 1, 4:
			tb = c<<5 | t.RepeatControl&0x1f
		default:
			tb = c<<5 | 0x1f
		}
		d = append(d, tb)
	}
	if o.HasAdditionalCopyInfo {
		d = append(d, 0x80|o.AdditionalCopyInfo&0x7f)
	}
	if o.HasCRC {
		d = append(d, byte(o.CRC>>8), byte(o.CRC))
	}
	if o.HasExtension {
		d = append(d, bit(o.HasPrivateData)<<7|bit(o.HasPackHeaderField)<<6|bit(o.HasProgramPacketSequenceCounter)<<5|bit(o.HasPSTDBuffer)<<4|0x0e|bit(o.HasExtension2))
		if o.HasPrivateData {
			d = append(d, o.PrivateData...)
		}
		if o.HasPackHeaderField {
			d = append(d, o.PackField) // pack_field_length, then the pack_header bytes (their content is nothing to a PES decoder)
			d = append(d, bytes.Repeat([]byte{0xaa}, int(o.PackField))...)
		}
		if o.HasProgramPacketSequenceCounter {
			d = append(d, 0x80|o.PacketSequenceCounter&0x7f, 0x80|o.MPEG1OrMPEG2ID&1<<6|o.OriginalStuffingLength&0x3f)
		}
		if o.HasPSTDBuffer {
			d = append(d, 0x40|o.PSTDBufferScale&1<<5|byte(o.PSTDBufferSize>>8&0x1f), byte(o.PSTDBufferSize))
		}
		if o.HasExtension2 {
			d = append(d, 0x80|byte(len(o.Extension2Data))&0x7f)
			d = append(d, o.Extension2Data...)
		}
	}
	for i := 0; i < hstuff; i++ {
		d = append(d, 0xff)
	}
	b = append(b, 0x80|o.ScramblingControl&3<<4|bit(o.Priority)<<3|bit(o.DataAlignmentIndicator)<<2|bit(o.IsCopyrighted)<<1|bit(o.IsOriginal))
	b = append(b, o.PTSDTSIndicator&3<<6|bit(o.HasESCR)<<5|bit(o.HasESRate)<<4|bit(o.HasDSMTrickMode)<<3|bit(o.HasAdditionalCopyInfo)<<2|bit(o.HasCRC)<<1|bit(o.HasExtension))
	b = append(b, byte(len(d)))
	return append(b, d...)
}

// randOpt builds an optional header with the flags of the second flags byte given by fl (bit 7..6 PTS_DTS .. bit 0 extension)
func randOpt(r *rng, fl int, xfl int) *astits.PESOptionalHeader {
	o := &astits.PESOptionalHeader{MarkerBits: 2, ScramblingControl: uint8(r.intn(4)), Priority: r.boolean(), DataAlignmentIndicator: r.boolean(),
		IsCopyrighted: r.boolean(), IsOriginal: r.boolean(), PTSDTSIndicator: uint8(fl >> 6 & 3)}
	stale := r.intn(3) == 0 // fields guarded by a cleared flag hold values all the same (a reused struct): they are not part of the value
	if o.PTSDTSIndicator >= 2 || stale {
		o.PTS = &astits.ClockReference{Base: cr33(r)}
	}
	if o.PTSDTSIndicator == 3 || stale {
		o.DTS = &astits.ClockReference{Base: cr33(r)}
	}
	if stale {
		o.ESCR, o.ESRate, o.DSMTrickMode = &astits.ClockReference{Base: cr33(r), Extension: 5}, uint32(r.intn(1<<22)), buildTrick(r)
		o.AdditionalCopyInfo, o.CRC, o.PrivateData, o.PackField = uint8(r.intn(128)), uint16(r.intn(1<<16)), r.bytes(16), 0
		o.PacketSequenceCounter, o.PSTDBufferSize, o.Extension2Data, o.Extension2Length = uint8(r.intn(128)), uint16(r.intn(1<<13)), r.bytes(3), 3
	}
	if fl&0x20 != 0 {
		o.HasESCR, o.ESCR = true, &astits.ClockReference{Base: cr33(r), Extension: int64(r.intn(512))}
	}
	if fl&0x10 != 0 {
		o.HasESRate, o.ESRate = true, uint32(r.intn(1<<22))
	}
	if fl&0x08 != 0 {
		o.HasDSMTrickMode, o.DSMTrickMode = true, buildTrick(r)
	}
	if fl&0x04 != 0 {
		o.HasAdditionalCopyInfo, o.AdditionalCopyInfo = true, uint8(r.intn(128))
	}
	if fl&0x02 != 0 {
		o.HasCRC, o.CRC = true, uint16(r.intn(1<<16))
	}
	if fl&0x01 != 0 {
		o.HasExtension = true
		if xfl&1 != 0 {
			o.HasPrivateData, o.PrivateData = true, r.bytes(16)
		}
		if xfl&2 != 0 {
			o.HasProgramPacketSequenceCounter, o.PacketSequenceCounter, o.MPEG1OrMPEG2ID, o.OriginalStuffingLength = true, uint8(r.intn(128)), uint8(r.intn(2)), uint8(r.intn(64))
		}
		if xfl&4 != 0 {
			o.HasPSTDBuffer, o.PSTDBufferScale, o.PSTDBufferSize = true, uint8(r.intn(2)), uint16(r.intn(1<<13))
		}
		if xfl&8 != 0 {
			n := r.intn(20)
			o.HasExtension2, o.Extension2Data, o.Extension2Length = true, r.bytes(n), uint8(n)
		}
	}
	return o
}

func runPES(line []byte, rec *recorder) {
	var sc pesScenario
	if err := json.Unmarshal(line, &sc); err != nil {
		fatal("bad pes scenario: %v", err)
	}
	rec.ev(M{"ev": "reset", "t": sc.SID, "kind": "pes", "part": sc.Part})
	r := newRng(sc.Seed ^ hashStr(sc.SID))
	parse := func(b []byte) (M, string, int, string) {
		var d *astits.PESData
		var err error
		if pn := safeCall(func() { d, err = astits.VerifParsePESData(b) }); pn != nil {
			return M{}, "panic", 0, ""
		}
		if err != nil {
			return M{}, "err", 0, ""
		}
		scramble(b)
		defer scramble(b)
		return projPESHeader(d.Header), "nil", len(d.Data), digest(d.Data)
	}
	wvec := func(class string, h *astits.PESHeader, paylen int) {
		v := projPESHeader(h)
		var wb []byte
		var n int
		var err error
		if pn := safeCall(func() { wb, n, err = astits.VerifWritePESHeader(h, paylen) }); pn != nil {
			err = fmt.Errorf("panic %v", pn)
		}
		payload := r.bytes(paylen)
		e := M{"ev": "wvec", "class": class, "v": v, "paylen": paylen, "wb": ints(wb), "wn": n, "werr": errStr(err), "pdg": digest(payload)}
		got, gerr, glen, gpdg := parse(append(append([]byte(nil), wb...), payload...))
		e["got"], e["gerr"], e["glen"], e["gpdg"] = got, gerr, glen, gpdg
		rec.ev(e)
	}
	pvec := func(class string, h *astits.PESHeader, plen, hstuff, avail int) {
		v := projPESHeader(h)
		b := twinPESHeader(h, plen, hstuff)
		got, gerr, glen, _ := parse(append(append([]byte(nil), b...), r.bytes(avail)...))
		rec.ev(M{"ev": "pvec", "class": class, "v": v, "plen": plen, "hstuff": hstuff, "avail": avail, "b": ints(b), "got": got, "gerr": gerr, "glen": glen})
	}
	exactPlen := func(h *astits.PESHeader, hstuff, avail int) int { return len(twinPESHeader(h, 0, hstuff)) - 6 + avail }
	sidOf := func() uint8 { return uint8(r.pick(0xc0, 0xe0, 0xbd, 0xfd, 0xc7, 0xef, 0xfa)) }
	switch sc.Part {
	case "sids":
		for sid := 0; sid < 256; sid++ {
			h := &astits.PESHeader{StreamID: uint8(sid), OptionalHeader: randOpt(r, r.intn(256)&^2, r.intn(16))}
			wvec("stream-id", h, r.pick(0, 1, 20, 300))
			h2 := &astits.PESHeader{StreamID: uint8(sid), OptionalHeader: randOpt(r, r.intn(256), r.intn(16))}
			av := r.intn(50)
			pvec("stream-id", h2, exactPlen(h2, 0, av), 0, av)
		}
	case "flags":
		for fl := 0; fl < 256; fl++ {
			for x := 0; x < 16; x++ {
				if fl&1 == 0 && x > 0 {
					continue
				}
				h := &astits.PESHeader{StreamID: sidOf(), OptionalHeader: randOpt(r, fl, x)}
				if fl&2 == 0 {
					wvec("flags", h, r.pick(0, 5, 100))
				}
				av := r.intn(40)
				pvec("flags", h, exactPlen(h, 0, av), 0, av)
				if fl&1 != 0 { // the same with pack_header_field_flag set and an empty pack header (pack_field_length 0): parse direction only
					hp := &astits.PESHeader{StreamID: sidOf(), OptionalHeader: randOpt(r, fl, x)}
					hp.OptionalHeader.HasPackHeaderField, hp.OptionalHeader.PackField = true, uint8(r.pick(0, 0, 1, 14, 40))
					pvec("flags-pack-header-field", hp, exactPlen(hp, 0, av), 0, av)
				}
			}
		}
		for f1 := 0; f1 < 64; f1++ {
			o := randOpt(r, 0x80, 0)
			o.ScramblingControl, o.Priority, o.DataAlignmentIndicator, o.IsCopyrighted, o.IsOriginal = uint8(f1>>4), f1&8 != 0, f1&4 != 0, f1&2 != 0, f1&1 != 0
			wvec("flags1", &astits.PESHeader{StreamID: sidOf(), OptionalHeader: o}, 10)
		}
	case "clocks":
		vals := []int64{0, 0x1ffffffff}
		for k := 0; k < 33; k++ {
			vals = append(vals, 1<<uint(k))
		}
		for i := 0; i < sc.N; i++ {
			vals = append(vals, cr33(r))
		}
		for _, b := range vals {
			for which := 0; which < 4; which++ {
				o := randOpt(r, 0, 0)
				switch which {
				case 3: // a decoding time equal to the presentation time
					o.PTSDTSIndicator, o.PTS, o.DTS = 3, &astits.ClockReference{Base: b}, &astits.ClockReference{Base: b}
				case 0:
					o.PTSDTSIndicator, o.PTS = 2, &astits.ClockReference{Base: b}
				case 1:
					o.PTSDTSIndicator, o.PTS, o.DTS = 3, &astits.ClockReference{Base: cr33(r)}, &astits.ClockReference{Base: b}
				case 2:
					o.HasESCR, o.ESCR = true, &astits.ClockReference{Base: b, Extension: int64(r.pick(0, 1, 2, 4, 8, 16, 32, 64, 128, 256, 511))}
				}
				wvec("clock", &astits.PESHeader{StreamID: sidOf(), OptionalHeader: o}, 3)
			}
			ext := int64(r.pick(0, 1, 2, 4, 8, 16, 32, 64, 128, 256, 511, 299))
			d := astits.ClockReference{Base: b, Extension: ext}.Duration()
			tm := astits.ClockReference{Base: b, Extension: ext}.Time() // the same instant counted from the epoch
			rec.ev(M{"ev": "dur", "class": "duration", "base": wide(b), "ext": int(ext), "secs": int(int64(d) / 1e9), "nanos": int(int64(d) % 1e9),
				"tsecs": int(tm.Unix()), "tnanos": tm.Nanosecond()})
		}
		for k := 0; k <= 22; k++ {
			o := randOpt(r, 0x10, 0)
			o.ESRate = uint32(1<<uint(k)) & 0x3fffff
			if k == 22 {
				o.ESRate = 0x3fffff
			}
			wvec("es-rate", &astits.PESHeader{StreamID: sidOf(), OptionalHeader: o}, 3)
		}
	case "trick":
		for raw := 0; raw < 256; raw++ {
			o := randOpt(r, 0x08, 0)
			h := &astits.PESHeader{StreamID: 0xe0, OptionalHeader: o}
			b := twinPESHeader(h, 0, 0)
			b[len(b)-1] = byte(raw)
			got, gerr, _, _ := parse(append(b, 1, 2, 3))
			var tr interface{} = []interface{}{}
			if gerr == "nil" {
				if opt, ok := got["opt"].([]interface{}); ok && len(opt) == 1 {
					if t, ok := opt[0].(M)["trick"].([]interface{}); ok && len(t) == 1 {
						tr = t[0]
					}
				}
			}
			rec.ev(M{"ev": "trick", "class": "trick-mode", "raw": raw, "got": tr})
			// and the writer for the value the byte means
			o2 := randOpt(r, 0x08, 0)
			o2.DSMTrickMode = &astits.DSMTrickMode{TrickModeControl: uint8(raw >> 5), FieldID: uint8(raw >> 3 & 3), IntraSliceRefresh: uint8(raw >> 2 & 1), FrequencyTruncation: uint8(raw & 3), RepeatControl: uint8(raw & 0x1f)}
			wvec("trick-mode", &astits.PESHeader{StreamID: 0xe0, OptionalHeader: o2}, 2)
		}
	case "crc":
		vals := []int{0, 0xffff, 0x1234, 0x8000, 0x0100, 0x00ff, 0xff00}
		for k := 0; k < 16; k++ {
			vals = append(vals, 1<<uint(k))
		}
		for i := 0; i < sc.N; i++ {
			vals = append(vals, r.intn(1<<16))
		}
		for _, c := range vals {
			o := randOpt(r, 0x02|r.intn(256)&0xfc, r.intn(16))
			o.HasCRC, o.CRC = true, uint16(c)
			h := &astits.PESHeader{StreamID: sidOf(), OptionalHeader: o}
			av := r.intn(30)
			pvec("crc", h, exactPlen(h, 0, av), 0, av)
		}
	case "ext":
		for x := 0; x < 16; x++ {
			for rep := 0; rep < 4; rep++ {
				h := &astits.PESHeader{StreamID: sidOf(), OptionalHeader: randOpt(r, 1|r.intn(256)&0xfc, x)}
				wvec("extension", h, r.intn(40))
			}
		}
		for n := 0; n <= 127; n++ {
			o := randOpt(r, 1, 8)
			o.Extension2Data, o.Extension2Length = r.bytes(n), uint8(n)
			wvec("extension2-length", &astits.PESHeader{StreamID: sidOf(), OptionalHeader: o}, 4)
			// the redundant length field of the value disagrees with the data: the bytes written follow the data
			o2 := randOpt(r, 1|r.intn(256)&0xfc, 8|r.intn(8))
			o2.Extension2Data, o2.Extension2Length = r.bytes(n), uint8(r.intn(128))
			wvec("extension2-redundant-length", &astits.PESHeader{StreamID: sidOf(), OptionalHeader: o2}, 4)
		}
		for k := 0; k < 13; k++ {
			o := randOpt(r, 1, 4)
			o.PSTDBufferSize = uint16(1 << uint(k))
			wvec("pstd", &astits.PESHeader{StreamID: sidOf(), OptionalHeader: o}, 4)
		}
	case "lengths":
		for hs := 0; hs <= 32; hs++ {
			h := &astits.PESHeader{StreamID: sidOf(), OptionalHeader: randOpt(r, r.intn(256), r.intn(16))}
			av := r.intn(60)
			pvec("header-stuffing", h, exactPlen(h, hs, av), hs, av)
		}
		for i := 0; i < sc.N; i++ {
			h := &astits.PESHeader{StreamID: sidOf(), OptionalHeader: randOpt(r, r.intn(256), r.intn(16))}
			av := r.rangeInt(0, 300)
			ex := exactPlen(h, 0, av)
			pvec("length-zero", h, 0, 0, av)
			pvec("length-exact", h, ex, 0, av)
			if av > 0 {
				pvec("length-shorter", h, ex-r.rangeInt(1, av), 0, av)
			}
			pvec("length-longer", h, ex+r.rangeInt(1, 50), 0, av)
			// no optional header
			h2 := &astits.PESHeader{StreamID: uint8(r.pick(190, 191, 0xbc, 0xf0, 0xf1, 0xf2, 0xf8, 0xff))}
			pvec("length-exact", h2, av, 0, av)
			pvec("length-zero", h2, 0, 0, av)
		}
		// PES_header_data_length at the top of its 8 bits (250..255): stuffing bytes fill the header up (more than the 32 the standard
		// allows a multiplexer to use; a parser takes the length as it comes)
		for _, target := range []int{250, 252, 253, 254, 255, 255} {
			h := &astits.PESHeader{StreamID: sidOf(), OptionalHeader: randOpt(r, r.pick(0x80, 0xc0, 0x00, 0x81), r.intn(16))}
			base := int(twinPESHeader(h, 0, 0)[8])
			if base > target {
				continue
			}
			av := r.rangeInt(0, 100)
			pvec("header-length-near-255", h, exactPlen(h, target-base, av), target-base, av)
			pvec("header-length-near-255", h, 0, target-base, av)
		}
		for _, pl := range []int{65535 - 8, 65535 - 7, 65535 - 6, 65536, 70000} { // around the 16-bit limit (PTS-only header: 3 + 5)
			wvec("length-16bit-limit", &astits.PESHeader{StreamID: 0xc0, OptionalHeader: randOpt(r, 0x80, 0)}, pl)
		}
	case "random":
		for i := 0; i < sc.N; i++ {
			h := &astits.PESHeader{StreamID: uint8(r.intn(256)), OptionalHeader: randOpt(r, r.intn(256), r.intn(16))}
			if h.OptionalHeader.HasCRC {
				av := r.intn(100)
				pvec("random", h, exactPlen(h, 0, av), r.intn(4), av)
			} else {
				wvec("random", h, r.intn(400))
			}
		}
	case "stream":
		// the headers where a stream carries them: several units per PID through one Muxer (stream id given or left to the muxer, a fresh
		// optional header per unit) and back through one Demuxer; payload sizes on both sides of the 1 KB / 2 KB / 64 KB marks, unbounded
		// (video) and bounded units in no particular order - every unit comes back with its own header and exactly its own bytes
		for rep := 0; rep < sc.N; rep++ {
			w := &recWriter{}
			m := astits.NewMuxer(context.Background(), w, astits.MuxerOptTablesRetransmitPeriod(r.pick(1, 5, 40)))
			types := map[int]astits.StreamType{0x100: astits.StreamTypeH264Video, 0x101: astits.StreamTypeAACAudio, 0x102: astits.StreamTypePrivateData}
			for _, pid := range []int{0x100, 0x101, 0x102} {
				m.AddElementaryStream(astits.PMTElementaryStream{ElementaryPID: uint16(pid), StreamType: types[pid]})
			}
			m.SetPCRPID(0x100)
			sent := map[int][]M{}
			okAll := true
			for i, n := 0, r.rangeInt(6, 14); i < n; i++ {
				pid := 0x100 + r.intn(3)
				sid := r.pick(0, 0, 0xe0, 0xc0, 0xbd)
				h := buildPESHeader(muxHdrClasses[r.intn(len(muxHdrClasses))], sid, r)
				if h.OptionalHeader == nil {
					continue
				}
				data := r.bytes(r.pick(1, 100, 1000, 1030, 1500, 2049, 3000, 5000, 12000, 48000, 1+r.intn(4000)))
				want := *h
				if sid == 0 {
					want.StreamID = types[pid].ToPESStreamID()
				}
				var err error
				if pn := safeCall(func() {
					_, err = m.WriteData(&astits.MuxerData{PID: uint16(pid), PES: &astits.PESData{Header: h, Data: data}})
				}); pn != nil || err != nil {
					okAll = false
					break
				}
				sent[pid] = append(sent[pid], M{"hdr": projPESHeader(&want), "len": len(data), "dg": digest(data)})
			}
			if !okAll {
				continue
			}
			got := map[int][]M{}
			dmx := astits.NewDemuxer(context.Background(), bytes.NewReader(w.buf.Bytes()), astits.DemuxerOptPacketSize(188))
			for k := 0; k < w.buf.Len()/188+20; k++ {
				var d *astits.DemuxerData
				var err error
				if pn := safeCall(func() { d, err = dmx.NextData() }); pn != nil {
					got[0x100] = append(got[0x100], M{"hdr": M{"sid": -1, "opt": []interface{}{}}, "len": -1, "dg": "panic"})
					break
				}
				if err == astits.ErrNoMorePackets {
					break
				}
				if err != nil || d.PES == nil {
					continue
				}
				got[int(d.PID)] = append(got[int(d.PID)], M{"hdr": projPESHeader(d.PES.Header), "len": len(d.PES.Data), "dg": digest(d.PES.Data)})
			}
			for _, pid := range []int{0x100, 0x101, 0x102} {
				se, ge := sent[pid], got[pid]
				if se == nil {
					se = []M{}
				}
				if ge == nil {
					ge = []M{}
				}
				rec.ev(M{"ev": "pstream", "class": "muxed-and-demuxed", "pid": pid, "sent": se, "got": ge})
			}
		}
	case "remux":
		// units that went through the library once: reference-encoded PES (bounded and unbounded, header stuffing, any stream id with an
		// optional header) are demuxed, the PESData handed to a Muxer as it is, and the result demuxed again - same headers, same bytes
		for rep := 0; rep < sc.N; rep++ {
			var src []byte
			nunits := r.rangeInt(3, 7)
			for i := 0; i < nunits; i++ {
				h := &astits.PESHeader{StreamID: uint8(r.pick(0xe0, 0xe0, 0xfd, 0xc0, 0xbd)), OptionalHeader: randOpt(r, r.pick(0x80, 0xc0, 0x80, 0xc0, 0x00), 0)}
				hs := r.pick(0, 0, 1, 4, 17)
				av := r.pick(1, 50, 184, 300, 1000)
				plen := exactPlen(h, hs, av)
				if r.intn(3) == 0 {
					plen = 0
				}
				unit := append(twinPESHeader(h, plen, hs), r.bytes(av)...)
				src = append(src, packetise(0x100, unit, len(src)/188)...)
			}
			demuxAll := func(stream []byte) ([]*astits.PESData, []M) {
				var ds []*astits.PESData
				var ms []M
				dmx := astits.NewDemuxer(context.Background(), bytes.NewReader(stream), astits.DemuxerOptPacketSize(188))
				for k := 0; k < len(stream)/188+20; k++ {
					var d *astits.DemuxerData
					var err error
					if pn := safeCall(func() { d, err = dmx.NextData() }); pn != nil {
						ms = append(ms, M{"hdr": M{"sid": -1, "opt": []interface{}{}}, "len": -1, "dg": "panic"})
						break
					}
					if err == astits.ErrNoMorePackets {
						break
					}
					if err != nil {
						ms = append(ms, M{"hdr": M{"sid": -2, "opt": []interface{}{}}, "len": -1, "dg": "error"})
						continue
					}
					if d.PES == nil || d.PID != 0x100 {
						continue
					}
					ds = append(ds, d.PES)
					ms = append(ms, M{"hdr": projPESHeader(d.PES.Header), "len": len(d.PES.Data), "dg": digest(d.PES.Data)})
				}
				return ds, ms
			}
			first, sent := demuxAll(src)
			w := &recWriter{}
			m := astits.NewMuxer(context.Background(), w)
			m.AddElementaryStream(astits.PMTElementaryStream{ElementaryPID: 0x100, StreamType: astits.StreamTypeH264Video})
			m.SetPCRPID(0x100)
			okAll := len(first) > 0
			for _, pd := range first {
				var err error
				if pn := safeCall(func() { _, err = m.WriteData(&astits.MuxerData{PID: 0x100, PES: pd}) }); pn != nil || err != nil {
					okAll = false
				}
			}
			if !okAll {
				continue
			}
			_, got := demuxAll(w.buf.Bytes())
			rec.ev(M{"ev": "pstream", "class": "demuxed-muxed-demuxed", "pid": 0x100, "sent": sent, "got": got})
		}
	default:
		fatal("unknown pes part %q", sc.Part)
	}
}
