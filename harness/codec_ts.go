package main

import (
	"bytes"
	"context"
	"encoding/json"
	"fmt"

	"github.com/asticode/go-astits"
)

// ---------- C11: TS packet header and adaptation field ----------

type tsScenario struct {
	SID  string `json:"sid"`
	Kind string `json:"kind"`
	Seed uint64 `json:"seed"`
	Part string `json:"part"`
	N    int    `json:"n"`
	Lo   int    `json:"lo"`
	Hi   int    `json:"hi"`
}

func projCRW(c *astits.ClockReference, withExt bool) []interface{} {
	if c == nil {
		c = &astits.ClockReference{}
	}
	if withExt {
		return []interface{}{wide(c.Base), int(c.Extension)}
	}
	return []interface{}{wide(c.Base)}
}

// projTSAF projects an adaptation field; out=true: a parsed field (one-byte form recognised by Length == 0)
func projTSAF(a *astits.PacketAdaptationField, out bool) M {
	none := []interface{}{}
	m := M{"one": false, "disc": false, "rai": false, "espi": false, "pcr": none, "opcr": none, "splice": none, "priv": none, "ext": none, "stuff": 0}
	if (out && a.Length == 0) || (!out && a.IsOneByteStuffing) {
		m["one"] = true
		return m
	}
	m["disc"], m["rai"], m["espi"] = a.DiscontinuityIndicator, a.RandomAccessIndicator, a.ElementaryStreamPriorityIndicator
	if a.HasPCR {
		m["pcr"] = projCRW(a.PCR, true)
	}
	if a.HasOPCR {
		m["opcr"] = projCRW(a.OPCR, true)
	}
	if a.HasSplicingCountdown {
		m["splice"] = []interface{}{a.SpliceCountdown} // signed: -128..127
	}
	if a.HasTransportPrivateData {
		m["priv"] = []interface{}{ints(a.TransportPrivateData)}
	}
	if a.HasAdaptationExtensionField && a.AdaptationExtensionField != nil {
		e := a.AdaptationExtensionField
		x := M{"ltw": none, "pw": none, "ss": none}
		if e.HasLegalTimeWindow {
			x["ltw"] = []interface{}{e.LegalTimeWindowIsValid, int(e.LegalTimeWindowOffset)}
		}
		if e.HasPiecewiseRate {
			x["pw"] = []interface{}{int(e.PiecewiseRate)}
		}
		if e.HasSeamlessSplice {
			var b int64
			if e.DTSNextAccessUnit != nil {
				b = e.DTSNextAccessUnit.Base
			}
			x["ss"] = []interface{}{int(e.SpliceType), wide(b)}
		}
		m["ext"] = []interface{}{x}
	}
	m["stuff"] = a.StuffingLength
	return m
}

func projTSPacket(p *astits.Packet, out bool) M {
	h := p.Header
	m := M{"tei": h.TransportErrorIndicator, "pusi": h.PayloadUnitStartIndicator, "prio": h.TransportPriority, "pid": int(h.PID),
		"scr": int(h.TransportScramblingControl), "haf": h.HasAdaptationField, "hpl": h.HasPayload, "cc": int(h.ContinuityCounter),
		"af": []interface{}{}, "pl": ints(p.Payload)}
	if h.HasAdaptationField && p.AdaptationField != nil {
		m["af"] = []interface{}{projTSAF(p.AdaptationField, out)}
	}
	if out && !h.HasAdaptationField && p.AdaptationField != nil {
		m["af"] = []interface{}{M{"stray": true}} // a parsed packet without adaptation field carries none (not some other packet's)
	}
	return m
}

// afSize is the number of bytes the adaptation field occupies without stuffing (independent arithmetic)
func afSize(a *astits.PacketAdaptationField) int {
	if a.IsOneByteStuffing {
		return 1
	}
	n := 2
	if a.HasPCR {
		n += 6
	}
	if a.HasOPCR {
		n += 6
	}
	if a.HasSplicingCountdown {
		n++
	}
	if a.HasTransportPrivateData {
		n += 1 + len(a.TransportPrivateData)
	}
	if a.HasAdaptationExtensionField {
		n += 2
		e := a.AdaptationExtensionField
		if e.HasLegalTimeWindow {
			n += 2
		}
		if e.HasPiecewiseRate {
			n += 3
		}
		if e.HasSeamlessSplice {
			n += 5
		}
	}
	return n
}

// finish fills the packet to exactly 188 bytes: payload (when flagged) takes what the adaptation field leaves, else stuffing
func finishPacket(p *astits.Packet, r *rng, stuff int) {
	free := 184
	if p.Header.HasAdaptationField {
		free -= afSize(p.AdaptationField)
	}
	if free < 0 {
		fatal("adaptation field too large for one packet")
	}
	if p.Header.HasPayload {
		if stuff > free {
			stuff = free
		}
		if p.Header.HasAdaptationField && !p.AdaptationField.IsOneByteStuffing {
			p.AdaptationField.StuffingLength = stuff
			free -= stuff
		}
		p.Payload = r.bytes(free)
	} else if p.Header.HasAdaptationField && !p.AdaptationField.IsOneByteStuffing {
		p.AdaptationField.StuffingLength = free
	}
}

func randCR(r *rng) *astits.ClockReference {
	return &astits.ClockReference{Base: cr33(r), Extension: int64(r.intn(512))}
}

func randAF(r *rng, mask int, xmask int) *astits.PacketAdaptationField {
	a := &astits.PacketAdaptationField{DiscontinuityIndicator: r.boolean(), RandomAccessIndicator: r.boolean(), ElementaryStreamPriorityIndicator: r.boolean()}
	if r.intn(3) == 0 { // fields guarded by a cleared flag hold values all the same (a reused struct): they are not part of the value
		a.PCR, a.OPCR, a.SpliceCountdown = randCR(r), randCR(r), r.intn(256)
		a.TransportPrivateData, a.TransportPrivateDataLength = r.bytes(4), 4
		a.AdaptationExtensionField = &astits.PacketAdaptationExtensionField{LegalTimeWindowOffset: 77, PiecewiseRate: 99, SpliceType: 3, DTSNextAccessUnit: &astits.ClockReference{Base: cr33(r)}}
	}
	if mask&1 != 0 {
		a.HasPCR, a.PCR = true, randCR(r)
	}
	if mask&2 != 0 {
		a.HasOPCR, a.OPCR = true, randCR(r)
	}
	if mask&4 != 0 {
		a.HasSplicingCountdown, a.SpliceCountdown = true, r.intn(256)-128
	}
	if mask&8 != 0 {
		n := r.intn(20)
		a.HasTransportPrivateData, a.TransportPrivateData, a.TransportPrivateDataLength = true, r.bytes(n), n
	}
	if mask&16 != 0 {
		e := &astits.PacketAdaptationExtensionField{}
		if xmask&1 != 0 {
			e.HasLegalTimeWindow, e.LegalTimeWindowIsValid, e.LegalTimeWindowOffset = true, r.boolean(), uint16(r.intn(1<<15))
		}
		if xmask&2 != 0 {
			e.HasPiecewiseRate, e.PiecewiseRate = true, uint32(r.intn(1<<22))
		}
		if xmask&4 != 0 {
			e.HasSeamlessSplice, e.SpliceType, e.DTSNextAccessUnit = true, uint8(r.intn(16)), &astits.ClockReference{Base: cr33(r)}
		}
		a.HasAdaptationExtensionField, a.AdaptationExtensionField = true, e
	}
	return a
}

func runTS(line []byte, rec *recorder) {
	var sc tsScenario
	if err := json.Unmarshal(line, &sc); err != nil {
		fatal("bad ts scenario: %v", err)
	}
	rec.ev(M{"ev": "reset", "t": sc.SID, "kind": "ts", "part": sc.Part})
	r := newRng(sc.Seed ^ hashStr(sc.SID))
	w := &recWriter{}
	mx := astits.NewMuxer(context.Background(), w)
	vec := func(class string, p *astits.Packet) {
		v := projTSPacket(p, false)
		before := w.buf.Len()
		var n int
		var err error
		if pn := safeCall(func() { n, err = mx.WritePacket(p) }); pn != nil {
			err = fmt.Errorf("panic: %v", pn)
		}
		wb := append([]byte(nil), w.buf.Bytes()[before:]...)
		e := M{"ev": "vec", "class": class, "v": v, "wb": ints(wb), "wn": n, "werr": errStr(err), "got": M{}, "perr": "none", "rb": []int{}, "rerr": "none"}
		if err == nil && len(wb) == 188 {
			dmx := astits.NewDemuxer(context.Background(), bytes.NewReader(wb), astits.DemuxerOptPacketSize(188))
			var q *astits.Packet
			var perr error
			if pn := safeCall(func() { q, perr = dmx.NextPacket() }); pn != nil {
				perr = fmt.Errorf("panic: %v", pn)
			}
			e["perr"] = errStr(perr)
			if perr == nil {
				e["got"] = projTSPacket(q, true)
				b2 := w.buf.Len()
				var rerr error
				if pn := safeCall(func() { _, rerr = mx.WritePacket(q) }); pn != nil {
					rerr = fmt.Errorf("panic: %v", pn)
				}
				e["rb"] = ints(w.buf.Bytes()[b2:])
				e["rerr"] = errStr(rerr)
			}
		}
		rec.ev(e)
		w.buf.Reset()
	}
	hdr := func() astits.PacketHeader {
		return astits.PacketHeader{PID: uint16(r.intn(8192)), ContinuityCounter: uint8(r.intn(16)), TransportScramblingControl: uint8(r.intn(4)),
			TransportErrorIndicator: r.intn(8) == 0, PayloadUnitStartIndicator: r.boolean(), TransportPriority: r.boolean()}
	}
	switch sc.Part {
	case "pids":
		for pid := sc.Lo; pid < sc.Hi; pid++ {
			h := hdr()
			h.PID, h.HasPayload = uint16(pid), true
			p := &astits.Packet{Header: h}
			finishPacket(p, r, 0)
			vec("pid", p)
		}
	case "special": // PIDs with a role of their own (PAT, CAT, TSDT, DVB SI, null, ...) carrying arbitrary payload bytes
		for _, pid := range []int{0, 1, 2, 3, 0x10, 0x11, 0x12, 0x13, 0x14, 0x1e, 0x1f, 0x20, 0x47, 0x147, 0x1000, 0x1ffb, 0x1ffe, 0x1fff} {
			for rep := 0; rep < 6; rep++ {
				h := hdr()
				h.PID, h.HasPayload, h.HasAdaptationField = uint16(pid), true, rep%2 == 1
				p := &astits.Packet{Header: h}
				if h.HasAdaptationField {
					p.AdaptationField = randAF(r, r.intn(16), 0)
				}
				finishPacket(p, r, r.pick(0, 3))
				vec("special-pid", p)
			}
		}
	case "hdr":
		for cc := 0; cc < 16; cc++ {
			for scr := 0; scr < 4; scr++ {
				for fl := 0; fl < 8; fl++ {
					for afc := 1; afc <= 3; afc++ {
						h := astits.PacketHeader{PID: uint16(r.intn(8192)), ContinuityCounter: uint8(cc), TransportScramblingControl: uint8(scr),
							TransportErrorIndicator: fl&1 != 0, PayloadUnitStartIndicator: fl&2 != 0, TransportPriority: fl&4 != 0,
							HasPayload: afc&1 != 0, HasAdaptationField: afc&2 != 0}
						p := &astits.Packet{Header: h}
						if h.HasAdaptationField {
							p.AdaptationField = randAF(r, r.intn(32), r.intn(8))
						}
						finishPacket(p, r, r.intn(30))
						vec("header", p)
					}
				}
			}
		}
	case "afsubsets":
		for mask := 0; mask < 32; mask++ {
			for xmask := 0; xmask < 8; xmask++ {
				if mask&16 == 0 && xmask > 0 {
					continue
				}
				for rep := 0; rep < sc.N; rep++ {
					h := hdr()
					h.HasAdaptationField, h.HasPayload = true, rep%3 != 2
					p := &astits.Packet{Header: h, AdaptationField: randAF(r, mask, xmask)}
					finishPacket(p, r, r.pick(0, 0, 1, 2, 50))
					vec("af-subset", p)
				}
			}
		}
	case "aflen":
		// adaptation_field_length 0 (one byte), 1 (flags only), every stuffing amount up to the whole packet
		for total := 1; total <= 184; total++ {
			h := hdr()
			h.HasAdaptationField, h.HasPayload = true, total < 184
			a := &astits.PacketAdaptationField{RandomAccessIndicator: r.boolean()}
			if total == 1 {
				a = &astits.PacketAdaptationField{IsOneByteStuffing: true}
			} else {
				a.StuffingLength = total - 2
			}
			p := &astits.Packet{Header: h, AdaptationField: a}
			if h.HasPayload {
				p.Payload = r.bytes(184 - total)
			}
			vec("af-length", p)
		}
	case "clock":
		vals := []int64{0, 0x1ffffffff}
		for k := 0; k < 33; k++ {
			vals = append(vals, 1<<uint(k))
		}
		exts := []int64{0, 0x1ff}
		for k := 0; k < 9; k++ {
			exts = append(exts, 1<<uint(k))
		}
		for _, b := range vals {
			for _, which := range []int{0, 1, 2} {
				h := hdr()
				h.HasAdaptationField, h.HasPayload = true, true
				a := &astits.PacketAdaptationField{}
				switch which {
				case 0:
					a.HasPCR, a.PCR = true, &astits.ClockReference{Base: b, Extension: exts[r.intn(len(exts))]}
				case 1:
					a.HasOPCR, a.OPCR = true, &astits.ClockReference{Base: b, Extension: exts[r.intn(len(exts))]}
				case 2:
					a.HasAdaptationExtensionField = true
					a.AdaptationExtensionField = &astits.PacketAdaptationExtensionField{HasSeamlessSplice: true, SpliceType: uint8(r.intn(16)), DTSNextAccessUnit: &astits.ClockReference{Base: b}}
				}
				p := &astits.Packet{Header: h, AdaptationField: a}
				finishPacket(p, r, 0)
				vec("clock", p)
			}
		}
		for _, x := range exts {
			h := hdr()
			h.HasAdaptationField, h.HasPayload = true, true
			p := &astits.Packet{Header: h, AdaptationField: &astits.PacketAdaptationField{HasPCR: true, PCR: &astits.ClockReference{Base: cr33(r), Extension: x}}}
			finishPacket(p, r, 0)
			vec("clock", p)
		}
		for k := 0; k <= 22; k++ {
			h := hdr()
			h.HasAdaptationField, h.HasPayload = true, true
			e := &astits.PacketAdaptationExtensionField{HasPiecewiseRate: true, PiecewiseRate: uint32(1<<uint(k)) & 0x3fffff, HasLegalTimeWindow: true, LegalTimeWindowIsValid: k%2 == 0, LegalTimeWindowOffset: uint16(1<<uint(k%15)) & 0x7fff}
			if k == 22 {
				e.PiecewiseRate, e.LegalTimeWindowOffset = 0x3fffff, 0x7fff
			}
			p := &astits.Packet{Header: h, AdaptationField: &astits.PacketAdaptationField{HasAdaptationExtensionField: true, AdaptationExtensionField: e}}
			finishPacket(p, r, 0)
			vec("clock", p)
		}
		for sp := -128; sp < 128; sp++ {
			h := hdr()
			h.HasAdaptationField, h.HasPayload = true, true
			p := &astits.Packet{Header: h, AdaptationField: &astits.PacketAdaptationField{HasSplicingCountdown: true, SpliceCountdown: sp}}
			finishPacket(p, r, 0)
			vec("splice", p)
		}
	case "priv":
		for n := 0; n <= 181; n++ {
			h := hdr()
			h.HasAdaptationField, h.HasPayload = true, n < 181
			p := &astits.Packet{Header: h, AdaptationField: &astits.PacketAdaptationField{HasTransportPrivateData: true, TransportPrivateData: r.bytes(n), TransportPrivateDataLength: n}}
			finishPacket(p, r, 0)
			vec("private-data", p)
			if n > 0 && n < 181 { // the redundant length field disagrees with the data: the bytes written follow the data
				h2 := hdr()
				h2.HasAdaptationField, h2.HasPayload = true, true
				p2 := &astits.Packet{Header: h2, AdaptationField: &astits.PacketAdaptationField{HasTransportPrivateData: true, TransportPrivateData: r.bytes(n), TransportPrivateDataLength: r.pick(0, n-1, n+1, 255)}}
				finishPacket(p2, r, 0)
				vec("private-data-redundant-length", p2)
			}
		}
	case "random":
		for i := 0; i < sc.N; i++ {
			h := hdr()
			afc := r.rangeInt(1, 3)
			h.HasPayload, h.HasAdaptationField = afc&1 != 0, afc&2 != 0
			p := &astits.Packet{Header: h}
			if h.HasAdaptationField {
				p.AdaptationField = randAF(r, r.intn(32), r.intn(8))
			}
			finishPacket(p, r, r.pick(0, 1, 2, 3, r.intn(100)))
			vec("random", p)
		}
	case "stream":
		// histories: the packets go through one Muxer between WriteTables / WriteData calls, and come back through one Demuxer
		// whose PacketSkipper drops some of them (what is returned for a packet may not depend on its neighbours)
		for rep := 0; rep < sc.N; rep++ {
			w2 := &recWriter{}
			m2 := astits.NewMuxer(context.Background(), w2, astits.MuxerOptTablesRetransmitPeriod(r.pick(1, 3)))
			m2.AddElementaryStream(astits.PMTElementaryStream{ElementaryPID: 0x100, StreamType: astits.StreamTypeH264Video})
			m2.SetPCRPID(0x100)
			pids := []int{0x100, 0x101, 0x21, 0x1ffe}
			var pkts []*astits.Packet
			var evs []M
			var stream []byte
			ok := true
			for i, n := 0, r.rangeInt(8, 30); i < n; i++ {
				switch r.intn(5) {
				case 0:
					m2.WriteTables()
				case 1:
					m2.WriteData(&astits.MuxerData{PID: 0x100, AdaptationField: buildAF(muxAFClasses[r.intn(len(muxAFClasses))], r),
						PES: &astits.PESData{Header: buildPESHeader(muxHdrClasses[r.intn(len(muxHdrClasses))], 0, r), Data: r.bytes(r.pick(1, 100, 184, 400))}})
				}
				h := hdr()
				h.PID = uint16(pids[r.intn(len(pids))])
				afc := r.pick(1, 1, 3, 3, 2)
				h.HasPayload, h.HasAdaptationField = afc&1 != 0, afc&2 != 0
				p := &astits.Packet{Header: h}
				if h.HasAdaptationField {
					p.AdaptationField = randAF(r, r.intn(32), r.intn(8))
				}
				finishPacket(p, r, r.pick(0, 1, 2, 3, r.intn(100)))
				v := projTSPacket(p, false)
				before := w2.buf.Len()
				var wn int
				var err error
				if pn := safeCall(func() { wn, err = m2.WritePacket(p) }); pn != nil {
					err = fmt.Errorf("panic: %v", pn)
				}
				wb := append([]byte(nil), w2.buf.Bytes()[before:]...)
				evs = append(evs, M{"ev": "vec", "class": "history", "v": v, "wb": ints(wb), "wn": wn, "werr": errStr(err), "got": M{}, "perr": "none", "rb": []int{}, "rerr": "none"})
				pkts = append(pkts, p)
				if err != nil || len(wb) != 188 {
					ok = false
				}
				stream = append(stream, wb...)
			}
			want, got := 0, 0
			if ok {
				kind, arg := r.intn(4), r.intn(4)
				skip := func(q *astits.Packet) bool {
					switch kind {
					case 0:
						return int(q.Header.PID) == pids[arg]
					case 1:
						return q.Header.HasAdaptationField
					case 2:
						return q.AdaptationField != nil && q.AdaptationField.HasPCR
					}
					return int(q.Header.ContinuityCounter)%4 == arg
				}
				var kept []int
				for i, p := range pkts {
					pv := *p
					if !p.Header.HasAdaptationField {
						pv.AdaptationField = nil
					}
					if !skip(&pv) {
						kept = append(kept, i)
					}
				}
				want = len(kept)
				dmx := astits.NewDemuxer(context.Background(), bytes.NewReader(stream), astits.DemuxerOptPacketSize(188), astits.DemuxerOptPacketSkipper(skip))
				m3 := astits.NewMuxer(context.Background(), &recWriter{})
				type heldPkt struct {
					e M
					q *astits.Packet
				}
				var held []heldPkt
				for {
					var q *astits.Packet
					var perr error
					if pn := safeCall(func() { q, perr = dmx.NextPacket() }); pn != nil {
						perr = fmt.Errorf("panic: %v", pn)
					}
					if perr != nil {
						break
					}
					if got < len(kept) {
						e := evs[kept[got]]
						e["class"], e["perr"] = "history-skipper", "nil"
						held = append(held, heldPkt{e, q}) // looked at once the whole stream has been read: a returned packet stays what it was
						w3 := &recWriter{}
						m3 = astits.NewMuxer(context.Background(), w3)
						var rerr error
						if pn := safeCall(func() { _, rerr = m3.WritePacket(q) }); pn != nil {
							rerr = fmt.Errorf("panic: %v", pn)
						}
						e["rb"], e["rerr"] = ints(w3.buf.Bytes()), errStr(rerr)
					}
					got++
				}
				_ = m3
				for _, h := range held {
					h.e["got"] = projTSPacket(h.q, true)
				}
				for i := range evs {
					if evs[i]["class"] == "history" { // dropped by the skipper: the write direction only
						evs[i]["ev"] = "wvec"
					}
				}
			} else {
				for i := range evs {
					evs[i]["ev"] = "wvec"
				}
			}
			for _, e := range evs {
				rec.ev(e)
			}
			rec.ev(M{"ev": "sdone", "class": "history-skipper", "ok": ok, "want": want, "got": got})
		}
	default:
		fatal("unknown ts part %q", sc.Part)
	}
}
