package main

import (
	"bytes"
	"context"
	"crypto/sha1"
	"encoding/json"
	"fmt"

	"github.com/asticode/go-astits"
)

// ---------- the packet pool against spec/PacketPool.tla (trace specification spec/Mon_Acc.tla) ----------
//
// One real Demuxer per stream.  Every event is written at the point where the code is: `pkt` when the PacketSkipper is consulted
// (once per packet, before the packet reaches the pool; the fields come from the raw bytes), `acc` from the accumulator hook
// (decisions of packetAccumulator.add, in order), `group` when the PacketsParser is handed a group (the pool's output as
// NextData uses it), `pat` when a PAT is delivered (what updateData learns), `eof` at ErrNoMorePackets.

func accPktEvent(i int, raw []byte, cand map[int]bool) M {
	pid := int(raw[1]&0x1f)<<8 | int(raw[2])
	afc := int(raw[3] >> 4 & 3)
	haf, hp := afc&2 != 0, afc&1 != 0
	off := 4
	disc := false
	if haf {
		off = 5 + int(raw[4])
		disc = raw[4] > 0 && raw[5]&0x80 != 0
	}
	pl := []int{}
	if hp && off < 188 && cand[pid] {
		pl = ints(raw[off:])
	} else if hp && off < 188 {
		pl = ints(sha1sum(raw[off:])[:4]) // the payload's identity (duplicate test); its bytes only matter on the PIDs that may carry PSI
	}
	n := 0
	if hp && off < 188 {
		n = 188 - off
	}
	return M{"ev": "pkt", "i": i, "pid": pid, "cc": int(raw[3] & 15), "pusi": raw[1]&0x40 != 0, "hp": hp, "tei": raw[1]&0x80 != 0, "disc": disc, "pl": pl, "n": n}
}

func sha1sum(b []byte) []byte {
	h := sha1.Sum(b)
	return h[:]
}

func feedAcc(sid string, stream []byte, cand map[int]bool, rec *recorder) {
	rec.ev(M{"ev": "reset", "t": sid, "kind": "acc", "npkts": len(stream) / 188})
	astits.VerifSetAccHook(func(pid uint16, cc uint8, d string) {
		rec.ev(M{"ev": "acc", "pid": int(pid), "cc": int(cc), "d": d})
	})
	defer astits.VerifSetAccHook(nil)
	i := 0
	skipper := func(p *astits.Packet) bool {
		if (i+1)*188 <= len(stream) {
			rec.ev(accPktEvent(i, stream[i*188:(i+1)*188], cand))
		}
		i++
		return false
	}
	parser := func(ps []*astits.Packet) ([]*astits.DemuxerData, bool, error) {
		ccs := []int{}
		pid := -1
		for _, p := range ps {
			ccs = append(ccs, int(p.Header.ContinuityCounter))
			pid = int(p.Header.PID)
		}
		rec.ev(M{"ev": "group", "pid": pid, "ccs": ccs, "n": len(ps), "pusi": len(ps) > 0 && ps[0].Header.PayloadUnitStartIndicator})
		return nil, false, nil
	}
	dmx := astits.NewDemuxer(context.Background(), bytes.NewReader(stream), astits.DemuxerOptPacketSize(188),
		astits.DemuxerOptPacketSkipper(skipper), astits.DemuxerOptPacketsParser(parser))
	for k := 0; k < len(stream)/188*3+50; k++ {
		var d *astits.DemuxerData
		var err error
		if pn := safeCall(func() { d, err = dmx.NextData() }); pn != nil {
			rec.ev(M{"ev": "panic", "what": fmt.Sprint(pn)})
			return
		}
		if err == astits.ErrNoMorePackets {
			rec.ev(M{"ev": "eof"})
			return
		}
		if err != nil {
			rec.ev(M{"ev": "derr"})
			continue
		}
		if d.PAT != nil {
			progs := [][]int{}
			for _, p := range d.PAT.Programs {
				progs = append(progs, []int{int(p.ProgramNumber), int(p.ProgramMapID)})
			}
			rec.ev(M{"ev": "pat", "pid": int(d.PID), "progs": progs})
		}
	}
	rec.ev(M{"ev": "hang"})
}

// freeStream: packets over a free alphabet (any continuity counter, payload_unit_start, adaptation-field-only, transport_error,
// discontinuity_indicator), on PIDs 0, two PMT candidates, a DVB SI PID and an elementary PID; the payloads on the PSI PIDs are
// sound PATs (announcing subsets of the candidates), sound PMTs, sections cut over several packets, stuffing and noise
func freeStream(r *rng, n int) []byte {
	pids := []int{0, 0, 0x20, 0x20, 0x21, 0x11, 0x100}
	lastCC := map[int]int{}
	pending := map[int][]byte{}
	var out []byte
	for k := 0; k < n; k++ {
		pid := pids[r.intn(len(pids))]
		cc, seen := lastCC[pid]
		switch r.intn(10) {
		case 0:
			cc = r.intn(16)
		case 1: // the same counter again
		default:
			if seen {
				cc = (cc + 1) % 16
			} else {
				cc = r.intn(16)
			}
		}
		lastCC[pid] = cc
		pusi := r.intn(3) == 0 || len(pending[pid]) == 0 && r.intn(2) == 0
		afc := r.pick(1, 1, 1, 1, 1, 1, 3, 3, 2)
		p := make([]byte, 188)
		for j := range p {
			p[j] = 0xff
		}
		p[0] = 0x47
		p[1] = byte(pid >> 8 & 0x1f)
		if r.intn(30) == 0 {
			p[1] |= 0x80
		}
		p[2] = byte(pid)
		p[3] = byte(afc<<4 | cc)
		off := 4
		if afc&2 != 0 {
			al := r.pick(0, 1, 1, 7, 20, 100, 183)
			if afc == 2 {
				al = 183
			}
			p[4] = byte(al)
			if al > 0 {
				p[5] = 0
				if r.intn(4) == 0 {
					p[5] = 0x80 // discontinuity_indicator
				}
			}
			off = 5 + al
		}
		if afc&1 == 0 || off >= 188 {
			out = append(out, p...)
			continue
		}
		room := 188 - off
		var content []byte
		if pusi {
			p[1] |= 0x40
			var unit []byte
			switch r.intn(8) {
			case 0, 1, 2: // a sound PAT announcing a subset of the candidates (program 0 = network PID is not learnt)
				m := &tableModel{K: "pat", TID: 0, SSI: true, CNI: true, Ext: 1, PAT: &astits.PATData{}}
				for _, c := range []int{0x20, 0x21} {
					if r.boolean() {
						m.PAT.Programs = append(m.PAT.Programs, &astits.PATProgram{ProgramNumber: uint16(r.pick(0, 1, 2, 7)), ProgramMapID: uint16(c)})
					}
				}
				unit = append([]byte{0}, twinSection(m)...)
				if r.intn(3) == 0 {
					unit = append(unit, twinSection(m)...)
				}
			case 3: // a sound PMT-like section, possibly longer than one packet
				unit = append([]byte{byte(r.pick(0, 0, 3))}, bytes.Repeat([]byte{0xff}, 0)...)
				for j := 0; j < int(unit[0]); j++ {
					unit = append(unit, 0xff)
				}
				unit = append(unit, twinSection(randTable(r, "pmt", r.pick(0, 2, 30, 60), 0))...)
			case 4: // a section header announcing more than will ever come
				unit = []byte{0, byte(r.pick(0, 2, 0x42)), 0xb0 | byte(r.intn(4)), byte(r.intn(256))}
				unit = append(unit, r.bytes(r.intn(60))...)
			case 5: // pointer field past the payload, or noise
				unit = r.bytes(r.rangeInt(1, 40))
			case 6: // stuffing only
				unit = []byte{0}
			default: // an unknown table id
				unit = append([]byte{0, byte(r.pick(0x03, 0x80, 0xc0)), 0x30, 5}, r.bytes(5)...)
			}
			content = unit
			if len(content) > room {
				pending[pid] = content[room:]
				content = content[:room]
			} else {
				pending[pid] = nil
			}
		} else {
			content = pending[pid]
			if len(content) == 0 {
				content = r.bytes(r.pick(0, 3, 50))
			}
			if len(content) > room {
				pending[pid] = content[room:]
				content = content[:room]
			} else {
				pending[pid] = nil
			}
		}
		copy(p[off:], content)
		out = append(out, p...)
	}
	return out
}

func runAcc(sc *streamScenario, rec *recorder) {
	bs := buildStream(sc.Units, sc.Pkts, sc.PMTPIDs, sc.Seed, sc.Complete)
	cand := map[int]bool{0: true}
	for _, p := range sc.PMTPIDs {
		cand[p] = true
	}
	// the stream as the channel delivers it: duplicates in, dropped packets out
	var stream []byte
	for i := range bs.pkts {
		if bs.pkts[i].F == "drop" {
			continue
		}
		stream = append(stream, bs.bytes[i*188:(i+1)*188]...)
	}
	feedAcc(sc.SID, stream, cand, rec)
	r := newRng(sc.Seed ^ 0xacc)
	feedAcc(sc.SID+"/free", freeStream(r, r.rangeInt(20, 120)), map[int]bool{0: true, 0x20: true, 0x21: true}, rec)
}

// ---------- behaviours generated by TLC from spec/PacketPool.tla, replayed into the real Demuxer ----------

type modelPkt struct {
	PID  int   `json:"pid"`
	CC   int   `json:"cc"`
	PUSI bool  `json:"pusi"`
	HP   bool  `json:"hp"`
	TEI  bool  `json:"tei"`
	Disc bool  `json:"disc"`
	PL   []int `json:"pl"`
}

type accReplayScenario struct {
	SID  string     `json:"sid"`
	Pkts []modelPkt `json:"pkts"`
}

// modelPacketBytes: a 188-byte packet whose payload is exactly the model's bytes (the adaptation field takes the rest)
func modelPacketBytes(m modelPkt) []byte {
	p := make([]byte, 188)
	for j := range p {
		p[j] = 0xff
	}
	p[0] = 0x47
	p[1] = byte(m.PID >> 8 & 0x1f)
	if m.TEI {
		p[1] |= 0x80
	}
	if m.PUSI {
		p[1] |= 0x40
	}
	p[2] = byte(m.PID)
	n := 0
	if m.HP {
		n = len(m.PL)
	}
	if n > 182 {
		fatal("model payload too long")
	}
	afc := 2
	if m.HP {
		afc = 3
	}
	p[3] = byte(afc<<4 | m.CC&15)
	p[4] = byte(183 - n)
	p[5] = 0
	if m.Disc {
		p[5] = 0x80
	}
	for j := 0; j < n; j++ {
		p[188-n+j] = byte(m.PL[j])
	}
	return p
}

func runAccReplay(line []byte, rec *recorder) {
	var sc accReplayScenario
	if err := json.Unmarshal(line, &sc); err != nil {
		fatal("bad accreplay scenario: %v", err)
	}
	var stream []byte
	for _, m := range sc.Pkts {
		stream = append(stream, modelPacketBytes(m)...)
	}
	cand := map[int]bool{}
	for _, m := range sc.Pkts {
		cand[m.PID] = true // every PID of the behaviour logs its payload: the specification decides which ones matter
	}
	feedAcc(sc.SID, stream, cand, rec)
}
