package main

import (
	"fmt"
	"github.com/asticode/go-astits"
)

func main() { fmt.Println(astits.MpegTsPacketSize) }
