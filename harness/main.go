package main

import (
	"bufio"
	"encoding/json"
	"flag"
	"fmt"
	"os"
	"time"
)

// harness <cmd> [flags]
//
//	gen  -family F -n N -seed S [-max M] -out scenarios.ndjson     seeded random scenarios
//	run  -family F -in scenarios.ndjson -out trace.ndjson            drive the real code, record the trace
func main() {
	// nothing the library computes may depend on the process's time zone: the harness runs in an odd one
	time.Local = time.FixedZone("verif+0237", 2*3600+37*60)
	if len(os.Args) < 2 {
		fatal("usage: harness gen|run ...")
	}
	cmd := os.Args[1]
	if cmd == "deepskip" {
		deepSkipChild()
		return
	}
	fs := flag.NewFlagSet(cmd, flag.ExitOnError)
	family := fs.String("family", "", "scenario family")
	in := fs.String("in", "", "input ndjson")
	out := fs.String("out", "", "output ndjson")
	n := fs.Int("n", 10, "number of scenarios")
	seed := fs.Uint64("seed", 1, "seed")
	max := fs.Int("max", 30, "size bound")
	opt := fs.String("opt", "", "family-specific option")
	fs.Parse(os.Args[2:])
	switch cmd {
	case "gen":
		f, err := os.Create(*out)
		if err != nil {
			fatal("create %s: %v", *out, err)
		}
		w := bufio.NewWriterSize(f, 1<<20)
		emit := func(v interface{}) {
			b, err := json.Marshal(v)
			if err != nil {
				fatal("marshal scenario: %v", err)
			}
			w.Write(b)
			w.WriteByte('\n')
		}
		gen(*family, *seed, *n, *max, *opt, emit)
		w.Flush()
		f.Close()
	case "run":
		rec := newRecorder(*out)
		startWatchdog(rec)
		cnt := 0
		readNDJSON(*in, func(line []byte) {
			run(*family, line, rec, *opt)
			cnt++
		})
		rec.close()
		fmt.Printf("RUN family=%s scenarios=%d events=%d\n", *family, cnt, rec.n)
	default:
		fatal("unknown command %q", cmd)
	}
}

func gen(family string, seed uint64, n, max int, opt string, emit func(interface{})) {
	switch family {
	case "mux":
		genMux(seed, n, max, opt == "demux", emit)
	case "muxfault":
		genMuxFault(seed, n, max, emit)
	case "demux":
		genEarlyPMT = opt == "earlypmt"
		genStreams(seed, n, max, emit)
	case "pair":
		genPairs(seed, n, max, emit)
	default:
		fatal("gen: unknown family %q", family)
	}
}

func run(family string, line []byte, rec *recorder, opt string) {
	switch family {
	case "mux":
		var sc muxScenario
		if err := json.Unmarshal(line, &sc); err != nil {
			fatal("bad mux scenario: %v: %s", err, line)
		}
		if opt == "demux" {
			sc.Demux = true
		}
		runMux(&sc, rec)
	case "crc":
		runCRC(line, rec)
	case "dvb":
		runDVB(line, rec)
	case "ts":
		runTS(line, rec)
	case "pes":
		runPES(line, rec)
	case "desc":
		runDesc(line, rec)
	case "psi":
		runPSI(line, rec)
	case "alias":
		runAlias(line, rec)
	case "accreplay":
		runAccReplay(line, rec)
	case "rmodel":
		runRModel(line, rec)
	case "demux", "pair", "merge", "skip", "rewind", "rfault", "reader", "robust", "acc":
		var sc streamScenario
		if err := json.Unmarshal(line, &sc); err != nil {
			fatal("bad stream scenario: %v: %s", err, line)
		}
		runStreamFamily(family, &sc, rec, opt)
	default:
		fatal("run: unknown family %q", family)
	}
}

func runStreamFamily(family string, sc *streamScenario, rec *recorder, opt string) {
	switch family {
	case "demux":
		runDemux(sc, rec)
	case "pair":
		runPair(sc, rec)
	case "merge":
		runMerge(sc, sc.Variants, rec)
	case "skip":
		runSkip(sc, rec)
	case "rewind":
		runRewind(sc, rec)
	case "acc":
		runAcc(sc, rec)
	case "reader":
		lvl := 1
		if opt == "deep" {
			lvl = 2
		}
		runReader(sc, rec, lvl)
	case "rfault":
		lvl := 1
		if opt == "deep" {
			lvl = 2
		}
		runRFault(sc, rec, lvl)
	case "robust":
		lvl := 1
		if opt == "deep" {
			lvl = 2
		}
		runRobust(sc, rec, lvl)
	}
}
