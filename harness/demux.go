package main

import (
	"bufio"
	"bytes"
	"context"
	"encoding/json"
	"errors"
	"fmt"
	"io"
	"os"
	"os/exec"
	"runtime/debug"
	"time"

	"github.com/asticode/go-astits"
)

// ---------- readers ----------

// countReader counts the bytes pulled from the underlying reader (keeps Seek when the inner reader has it)
type countReader struct {
	r      io.Reader
	pulled int
	reads  int
}

func (c *countReader) Read(p []byte) (int, error) {
	n, err := c.r.Read(p)
	c.pulled += n
	c.reads++
	return n, err
}

type countSeekReader struct{ countReader }

func (c *countSeekReader) Seek(off int64, whence int) (int64, error) {
	n, err := c.r.(io.Seeker).Seek(off, whence)
	if err == nil { // the position the reader is left at, whatever the reference point of the seek
		c.pulled = int(n)
	}
	return n, err
}

// chunkReader returns at most k bytes per Read (k from a schedule), never seekable
type chunkReader struct {
	b     []byte
	pos   int
	sched []int
	i     int
}

func (c *chunkReader) Read(p []byte) (int, error) {
	if c.pos >= len(c.b) {
		return 0, io.EOF
	}
	k := c.sched[c.i%len(c.sched)]
	c.i++
	if k > len(p) {
		k = len(p)
	}
	if k > len(c.b)-c.pos {
		k = len(c.b) - c.pos
	}
	copy(p, c.b[c.pos:c.pos+k])
	c.pos += k
	return k, nil
}

// chunkSeekReader: short reads and seekable
type chunkSeekReader struct{ chunkReader }

func (c *chunkSeekReader) Seek(off int64, whence int) (int64, error) {
	switch whence {
	case io.SeekStart:
		c.pos = int(off)
	case io.SeekCurrent:
		c.pos += int(off)
	case io.SeekEnd:
		c.pos = len(c.b) + int(off)
	}
	return int64(c.pos), nil
}

// failReader delivers bytes up to failAt and then fails with errInjected (optionally after a partial read)
type failReader struct {
	b       []byte
	pos     int
	failAt  int
	partial bool
	fired   int
	seek    bool
	onFail  func() // called at the moment of the failure (e.g. the context given to NewDemuxer ends with the reader)
}

// the failure a reader reports comes in several kinds: a plain error, one that says it is a timeout (a network read deadline), one that
// says it is temporary - a failure all the same, wrapping the injected cause
type kindErr struct{ timeout, temporary bool }

func (e *kindErr) Error() string   { return "verif: injected I/O failure (i/o timeout)" }
func (e *kindErr) Timeout() bool   { return e.timeout }
func (e *kindErr) Temporary() bool { return e.temporary }
func (e *kindErr) Unwrap() error   { return errInjected }

func (f *failReader) failure() error {
	if f.onFail != nil {
		f.onFail()
	}
	switch f.failAt % 3 {
	case 1:
		return &kindErr{timeout: true}
	case 2:
		return &kindErr{temporary: true}
	}
	return errInjected
}

func (f *failReader) Read(p []byte) (int, error) {
	if f.pos >= f.failAt {
		f.fired++
		return 0, f.failure()
	}
	n := len(p)
	if n > f.failAt-f.pos {
		n = f.failAt - f.pos
		if !f.partial { // fail instead of delivering the partial read
			f.fired++
			return 0, f.failure()
		}
	}
	if n > len(f.b)-f.pos {
		n = len(f.b) - f.pos
	}
	if n == 0 {
		return 0, io.EOF
	}
	copy(p, f.b[f.pos:f.pos+n])
	f.pos += n
	return n, nil
}

type failSeekReader struct{ failReader }

func (f *failSeekReader) Seek(off int64, whence int) (int64, error) {
	switch whence {
	case io.SeekStart:
		f.pos = int(off)
	case io.SeekCurrent: // (the size detection gives its window back with a relative seek since e92fb84)
		f.pos += int(off)
	case io.SeekEnd:
		f.pos = len(f.b) + int(off)
	}
	if f.pos < 0 {
		f.pos = 0
	}
	return int64(f.pos), nil
}

// dataErrReader returns io.EOF together with the last bytes (as io.Reader permits and testing/iotest.DataErrReader does)
type dataErrReader struct {
	b   []byte
	pos int
	k   int // bytes per Read
}

func (d *dataErrReader) Read(p []byte) (int, error) {
	n := d.k
	if n > len(p) {
		n = len(p)
	}
	if n > len(d.b)-d.pos {
		n = len(d.b) - d.pos
	}
	copy(p, d.b[d.pos:d.pos+n])
	d.pos += n
	if d.pos >= len(d.b) {
		return n, io.EOF
	}
	return n, nil
}

// plainReader hides every optional interface of the inner reader
type plainReader struct{ r io.Reader }

func (p plainReader) Read(b []byte) (int, error) { return p.r.Read(b) }

type seekFailReader struct{ r *bytes.Reader }

func (s *seekFailReader) Read(p []byte) (int, error) { return s.r.Read(p) }
func (s *seekFailReader) Seek(int64, int) (int64, error) {
	return 0, errors.New("seek: illegal seek")
}

func makeReader(kind string, stream []byte, sched []int) io.Reader {
	switch kind {
	case "", "bytes":
		return bytes.NewReader(stream)
	case "bufio":
		return bufio.NewReaderSize(bytes.NewReader(stream), 4096)
	case "bufiochunk":
		return bufio.NewReaderSize(&chunkReader{b: stream, sched: sched}, 4096)
	case "bufiosmall": // a bufio.Reader whose buffer is smaller than a packet (explicit packet size; detection needs 193 bytes of buffer)
		return bufio.NewReaderSize(bytes.NewReader(stream), sched[0])
	case "plain":
		return plainReader{bytes.NewReader(stream)}
	case "seekoff": // a seekable reader handed over positioned behind 8 bytes that are not part of the stream
		rd := bytes.NewReader(append([]byte("8 bytes!"), stream...))
		rd.Seek(8, io.SeekStart)
		return rd
	case "seekfail": // a reader with a Seek method that fails (a file opened on a pipe)
		return &seekFailReader{bytes.NewReader(stream)}
	case "chunk":
		return &chunkReader{b: stream, sched: sched}
	case "chunkseek":
		return &chunkSeekReader{chunkReader{b: stream, sched: sched}}
	case "dataerr":
		k := 1 << 20
		if len(sched) > 0 {
			k = sched[0]
		}
		return &dataErrReader{b: stream, k: k}
	}
	fatal("unknown reader kind %q", kind)
	return nil
}

// ---------- projections ----------

func identOf(d *astits.DemuxerData) int {
	switch {
	case d.PAT != nil:
		return int(d.PAT.TransportStreamID)
	case d.PMT != nil:
		return int(d.PMT.ProgramNumber)
	case d.SDT != nil:
		return int(d.SDT.TransportStreamID)
	case d.NIT != nil:
		return int(d.NIT.NetworkID)
	case d.EIT != nil:
		return int(d.EIT.ServiceID)
	case d.TOT != nil:
		t := d.TOT.UTCTime
		return t.Hour()*3600 + t.Minute()*60 + t.Second()
	}
	return -1
}

// deliverEvent is the compact form of a NextData result used by the demux-side monitors
func deliverEvent(d *astits.DemuxerData) M {
	e := projDeliver(d)
	e["ident"] = identOf(d)
	if d.PES == nil {
		e["len"] = 0
		e["pdg"] = ""
	}
	delete(e, "hdr")
	delete(e, "af")
	delete(e, "progs")
	delete(e, "streams")
	delete(e, "pinfo")
	return e
}

func packetEvent(p *astits.Packet) M {
	e := M{"ev": "packet", "pid": int(p.Header.PID), "cc": int(p.Header.ContinuityCounter), "pusi": p.Header.PayloadUnitStartIndicator,
		"pl": p.Header.HasPayload, "haf": p.Header.HasAdaptationField, "tei": p.Header.TransportErrorIndicator, "n": len(p.Payload), "pdg": digest(p.Payload)}
	return e
}

func safeCall(f func()) (panicked interface{}) {
	defer func() { panicked = recover() }()
	f()
	return nil
}

// drainData loops NextData until ErrNoMorePackets (bounded), emitting deliver / derr / eof / hang events through emit
func drainData(dmx *astits.Demuxer, bound int, pulled func() int, emit func(M)) {
	for k := 0; k < bound; k++ {
		var d *astits.DemuxerData
		var err error
		if p := safeCall(func() { d, err = dmx.NextData() }); p != nil {
			emit(M{"ev": "derr", "panic": true, "msg": fmt.Sprint(p), "pulled": pulled()})
			continue
		}
		if err != nil {
			if err == astits.ErrNoMorePackets {
				emit(M{"ev": "eof", "pulled": pulled(), "calls": k + 1})
				return
			}
			emit(M{"ev": "derr", "panic": false, "msg": err.Error(), "pulled": pulled()})
			continue
		}
		e := deliverEvent(d)
		e["pulled"] = pulled()
		emit(e)
	}
	emit(M{"ev": "hang", "calls": bound})
}

// ---------- stream scenarios ----------

type demuxRun struct {
	PSize  int    `json:"psize,omitempty"`  // 0: explicit 188; -1: auto-detect; else explicit size
	Reader string `json:"reader,omitempty"` // bytes bufio plain chunk chunkseek
	Sched  []int  `json:"sched,omitempty"`  // short-read schedule
	API    string `json:"api,omitempty"`    // data | packet
}

type streamScenario struct {
	SID      string     `json:"sid"`
	Kind     string     `json:"kind"`
	Seed     uint64     `json:"seed"`
	Units    []unitSpec `json:"units"`
	Pkts     []pktSpec  `json:"pkts"`
	PMTPIDs  []int      `json:"pmtpids,omitempty"`
	Complete bool       `json:"complete,omitempty"`
	Run      demuxRun   `json:"run,omitempty"`
	Pred     *M         `json:"pred,omitempty"`
	// family-specific
	Ks       []int         `json:"ks,omitempty"`     // rewind points
	Merges   [][]int       `json:"merges,omitempty"` // alternative packet orders (indices into pkts)
	Skip     string        `json:"skip,omitempty"`   // skipper predicate
	Parser   string        `json:"parser,omitempty"` // packets parser mode
	Fail     []int         `json:"fail,omitempty"`   // reader failure offsets
	Variants []variantSpec `json:"variants,omitempty"`
}

func unitEvents(bs *builtStream, rec *recorder) {
	for _, u := range bs.units {
		rec.ev(M{"ev": "unit", "id": u.spec.ID, "pid": u.spec.PID, "t": u.spec.T, "items": u.items, "lastpkt": u.lastPkt, "firstpkt": u.firstPk, "npk": u.npk, "gpk": u.gpk, "opt": u.opt})
	}
}

func newDemuxer(r io.Reader, run demuxRun, opts ...func(*astits.Demuxer)) *astits.Demuxer {
	switch {
	case run.PSize == 0:
		opts = append(opts, astits.DemuxerOptPacketSize(188))
	case run.PSize > 0:
		opts = append(opts, astits.DemuxerOptPacketSize(run.PSize))
	}
	return astits.NewDemuxer(context.Background(), r, opts...)
}

func newDemuxerCtx(ctx context.Context, r io.Reader, run demuxRun, opts ...func(*astits.Demuxer)) *astits.Demuxer {
	switch {
	case run.PSize == 0:
		opts = append(opts, astits.DemuxerOptPacketSize(188))
	case run.PSize > 0:
		opts = append(opts, astits.DemuxerOptPacketSize(run.PSize))
	}
	return astits.NewDemuxer(ctx, r, opts...)
}

// flakySeekReader: a seekable reader whose Read fails once (not an end of file) when it reaches failAt; sound before and after
type flakySeekReader struct {
	r      *bytes.Reader
	failAt int64
	fired  bool
}

func (f *flakySeekReader) Read(p []byte) (int, error) {
	pos, _ := f.r.Seek(0, io.SeekCurrent)
	if !f.fired && pos >= f.failAt {
		f.fired = true
		return 0, errInjected
	}
	if !f.fired && pos+int64(len(p)) > f.failAt {
		p = p[:f.failAt-pos]
	}
	return f.r.Read(p)
}
func (f *flakySeekReader) Seek(off int64, whence int) (int64, error) { return f.r.Seek(off, whence) }

// runDemux (C02): the real Demuxer over the built stream with a byte-counting reader
func runDemux(sc *streamScenario, rec *recorder) {
	bs := buildStream(sc.Units, sc.Pkts, sc.PMTPIDs, sc.Seed, sc.Complete)
	rec.ev(M{"ev": "reset", "t": sc.SID, "kind": "demux", "npkts": len(bs.pkts)})
	unitEvents(bs, rec)
	cr := &countSeekReader{countReader{r: bytes.NewReader(bs.bytes)}}
	dmx := newDemuxer(cr, sc.Run)
	drainData(dmx, len(bs.pkts)+len(bs.units)*4+10, func() int { return cr.pulled }, rec.ev)
	if sc.Run.API == "packed" {
		runPacked(sc, rec)
	}
	if sc.Run.API == "longgap" {
		// a PID that falls silent for more than half a million packets of another PID (about 100 MB) while its last unit waits for the end
		// of the input, and a unit whose two packets lie that far apart: both are delivered (counted, not listed)
		const between = 576000
		var st []byte
		add := func(pid int, cc int, pusi bool, payload []byte) {
			b := make([]byte, 188)
			b[0], b[1], b[2], b[3] = 0x47, byte(pid>>8), byte(pid), 0x10|byte(cc&15)
			if pusi {
				b[1] |= 0x40
			}
			for j := 4; j < 188; j++ {
				b[j] = 0xff
			}
			copy(b[4:], payload)
			st = append(st, b...)
		}
		hdr := []byte{0, 0, 1, 0xe0, 0, 0, 0x80, 0, 0}
		add(0x100, 0, true, hdr)
		add(0x100, 1, false, []byte{1, 2, 3})
		add(0x102, 0, true, hdr)
		for i := 0; i < between; i++ {
			add(0x101, i, true, append(append([]byte(nil), hdr...), byte(i>>16), byte(i>>8), byte(i)))
		}
		add(0x102, 1, false, []byte{4, 5, 6})
		cnt := map[int]int{}
		errs, eof := 0, false
		dmx := astits.NewDemuxer(context.Background(), bytes.NewReader(st), astits.DemuxerOptPacketSize(188))
		for k := 0; k < between+20; k++ {
			d, err := dmx.NextData()
			if err == astits.ErrNoMorePackets {
				eof = true
				break
			}
			if err != nil {
				errs++
				continue
			}
			cnt[int(d.PID)]++
		}
		rec.ev(M{"ev": "longgap", "between": between, "n100": cnt[0x100], "n101": cnt[0x101], "n102": cnt[0x102], "errs": errs, "eof": eof})
	}
}

// runPacked: two sections packed the way ISO/IEC 13818-1 2.4.4 allows: section A ends in the packet in which section B starts; that packet
// has payload_unit_start set and its pointer_field counts the bytes of A's tail in front of B
func runPacked(sc *streamScenario, rec *recorder) {
	r := newRng(sc.Seed ^ 0x9a9a)
	var a, b []byte
	var ma, mb *tableModel
	for {
		ma, mb = randTable(r, "sdt", 3, 40), randTable(r, "sdt", 1, 0)
		a, b = twinSection(ma), twinSection(mb)
		if len(a) > 190 && len(a) < 183+100 && 1+(len(a)-183)+len(b) <= 184 && ma.Ext != mb.Ext {
			break
		}
	}
	pid := 0x11
	tail := len(a) - 183
	p1 := packetise(pid, append([]byte{0}, a[:183]...), 5)
	u2 := append(append([]byte{byte(tail)}, a[183:]...), b...)
	p2 := packetise(pid, u2, 6)
	stream := append(p1, p2...)
	rec.ev(M{"ev": "reset", "t": sc.SID + "/packed", "kind": "demux", "npkts": 2, "packing": "section-tail-behind-next-pointer-field"})
	rec.ev(M{"ev": "unit", "id": 1, "pid": pid, "t": "psi", "items": []item{{K: "sdt", Ident: ma.Ext}}, "lastpkt": 2, "firstpkt": 1, "npk": 2, "gpk": 2, "opt": false})
	rec.ev(M{"ev": "unit", "id": 2, "pid": pid, "t": "psi", "items": []item{{K: "sdt", Ident: mb.Ext}}, "lastpkt": 2, "firstpkt": 2, "npk": 1, "gpk": 1, "opt": false})
	cr := &countSeekReader{countReader{r: bytes.NewReader(stream)}}
	dmx := newDemuxer(cr, demuxRun{})
	drainData(dmx, 20, func() int { return cr.pulled }, rec.ev)
}

// ---------- C06: clean / faulted pairs ----------

// runPair: pkts carry channel marks (f = "dup": the extra copy; f = "drop": present in the clean stream only).
// Both streams go through a real Demuxer; deliveries are tagged with the run and with the unit they equal.
func runPair(sc *streamScenario, rec *recorder) {
	bs := buildStream(sc.Units, sc.Pkts, sc.PMTPIDs, sc.Seed, sc.Complete)
	rec.ev(M{"ev": "reset", "t": sc.SID, "kind": "pair", "npkts": len(bs.pkts)})
	unitEvents(bs, rec)
	var clean, fault []byte
	prevUnit := map[int]int{} // pid -> last unit id seen before the current one
	curUnit := map[int]int{}
	inDomain := true
	for i := range bs.pkts {
		p := &bs.pkts[i]
		b := bs.bytes[i*188 : (i+1)*188]
		if p.K == "" && p.F != "dup" && curUnit[p.PID] != p.U {
			prevUnit[p.PID] = curUnit[p.PID]
			curUnit[p.PID] = p.U
		}
		if p.F != "dup" {
			clean = append(clean, b...)
		}
		if p.F != "drop" {
			bb := b
			if p.F == "dup" && b[3]&0x20 != 0 && b[4] >= 7 && b[5]&0x10 != 0 {
				// a duplicate as a re-multiplexer emits it: same header, same payload, the PCR stamped again
				bb = append([]byte(nil), b...)
				bb[6] ^= 0x55
				bb[10] ^= 0x01
			}
			fault = append(fault, bb...)
		}
		if p.F == "dup" || p.F == "drop" {
			rec.ev(M{"ev": "fault", "f": p.F, "pid": p.PID, "u": p.U, "prevu": prevUnit[p.PID], "pusi": p.PUSI, "at": i})
		}
		if p.F == "drop" {
			later := false
			for j := i + 1; j < len(bs.pkts); j++ {
				q := &bs.pkts[j]
				if q.PID == p.PID && q.K == "" && q.F != "drop" {
					later = true
					break
				}
			}
			if !later {
				inDomain = false
			}
		}
	}
	if !inDomain {
		rec.ev(M{"ev": "outofdomain"})
		return
	}
	// the k-th clean delivery on a PID is the k-th item of that PID's units (C02); faulted deliveries are
	// matched to clean ones by content digest
	itemUnit := map[int][]int{}
	for _, u := range bs.units {
		for range u.items {
			itemUnit[u.spec.PID] = append(itemUnit[u.spec.PID], u.spec.ID)
		}
	}
	seen := map[int]int{}
	unitOfCDG := map[string]int{}
	dgOfCDG := map[string]map[string]bool{} // the whole delivered values (first packet included) of the clean deliveries with that content
	one := func(run string, stream []byte) {
		dmx := newDemuxer(bytes.NewReader(stream), sc.Run)
		drainData(dmx, len(stream)/188+len(bs.units)*4+10, func() int { return 0 }, func(e M) {
			e["run"] = run
			if e["ev"] == "deliver" {
				pid := e["pid"].(int)
				key := fmt.Sprintf("%d/%s", pid, e["cdg"])
				if run == "clean" {
					u := 0
					if k := seen[pid]; k < len(itemUnit[pid]) {
						u = itemUnit[pid][k]
					}
					seen[pid]++
					unitOfCDG[key] = u
					if dgOfCDG[key] == nil {
						dgOfCDG[key] = map[string]bool{}
					}
					if dg, ok := e["dg"].(string); ok {
						dgOfCDG[key][dg] = true // (several units of a PID may have the same content: every one of them is a legitimate match)
					}
					e["u"] = u
				} else {
					e["u"] = unitOfCDG[key]
					if want, ok := dgOfCDG[key]; ok {
						got, _ := e["dg"].(string)
						e["fpsame"] = want[got] // the unit's first packet (header, adaptation field) is the clean run's too
					}
				}
			}
			rec.ev(e)
		})
	}
	one("clean", clean)
	one("fault", fault)
}

// ---------- C07: merges, insertions, single-PID corruptions ----------

type variantSpec struct {
	T     string `json:"t"`               // merge | insert | corrupt
	Order []int  `json:"order,omitempty"` // merge: permutation of packet indices
	At    int    `json:"at,omitempty"`    // insert: position
	K     string `json:"k,omitempty"`     // insert: null | afonly | tei
	N     int    `json:"n,omitempty"`     // insert: number of copies (0 = one); long gaps between two packets of a PID
	PID   int    `json:"pid,omitempty"`   // insert: PID of the afonly/tei packet; corrupt: the corrupted PID
	Mode  string `json:"mode,omitempty"`  // corrupt: dropall | dropsome | garbage | tei
}

func runMerge(sc *streamScenario, vs []variantSpec, rec *recorder) {
	bs := buildStream(sc.Units, sc.Pkts, sc.PMTPIDs, sc.Seed, sc.Complete)
	rec.ev(M{"ev": "reset", "t": sc.SID, "kind": "merge", "npkts": len(bs.pkts)})
	unitEvents(bs, rec)
	rg := newRng(sc.Seed ^ 0x77)
	pk := func(i int) []byte { return bs.bytes[i*188 : (i+1)*188] }
	run := 0
	demuxRunN := func(stream []byte, v variantSpec) {
		rec.ev(M{"ev": "variant", "r": run, "t": v.T, "cpid": v.PID, "mode": v.Mode, "k": v.K})
		dmx := newDemuxer(bytes.NewReader(stream), sc.Run)
		r := run
		drainData(dmx, len(stream)/188+len(bs.units)*4+10, func() int { return 0 }, func(e M) {
			e["run"] = r
			rec.ev(e)
		})
		run++
	}
	var base []byte
	for i := range bs.pkts {
		base = append(base, pk(i)...)
	}
	for rep := 0; rep < 3; rep++ { // the same input three times: map-iteration or pool dependence shows as a difference
		demuxRunN(base, variantSpec{T: "base", PID: -1})
	}
	for _, v := range vs {
		var s []byte
		switch v.T {
		case "merge":
			if len(v.Order) != len(bs.pkts) {
				fatal("merge order has %d entries for %d packets", len(v.Order), len(bs.pkts))
			}
			for _, i := range v.Order {
				s = append(s, pk(i)...)
			}
			v.PID = -1
		case "insert":
			f := pktSpec{PID: v.PID, K: v.K, CC: rg.intn(16)}
			if v.K == "headless" {
				f.K = "null" // (placeholder; the packets are built below)
			}
			fb := packetBytes(&f, nil, rg)
			many := fb
			for k := 1; k < v.N; k++ {
				many = append(many, fb...)
			}
			if v.K == "headless" {
				// very many packets of a foreign PID that never starts a unit (continuity counters in sequence, all payloads different): they
				// pile up in that PID's accumulator and are nobody else's business
				many = many[:0]
				for k := 0; k < v.N; k++ {
					b := make([]byte, 188)
					b[0], b[1], b[2], b[3] = 0x47, 0x1a, 0xbd, 0x10|byte(k%16)
					b[4], b[5], b[6], b[7] = 0xaa, byte(k>>16), byte(k>>8), byte(k)
					many = append(many, b...)
				}
			}
			for i := range bs.pkts {
				if i == v.At {
					s = append(s, many...)
				}
				s = append(s, pk(i)...)
			}
			if v.At >= len(bs.pkts) {
				s = append(s, many...)
			}
			v.PID = -1
		case "foreignpat":
			// a sound PAT-shaped section (table_id 0, valid CRC_32) on a PID that is not PID 0 (v.PID, a DVB SI PID the stream does not use),
			// naming one of the stream's elementary PIDs (v.At) as a program map PID: only PID 0 carries the PAT
			pn, cc0 := uint16(1), rg.intn(16)
			if v.K == "nit" {
				// ... or a PAT on PID 0 whose program_number 0 entry (the network PID, not a program map PID) names the elementary PID
				pn = 0
				for i := range bs.pkts {
					if bs.pkts[i].PID == 0 && bs.pkts[i].K == "" {
						cc0 = (bs.pkts[i].CC + 15) % 16
						break
					}
				}
			}
			m := &tableModel{K: "pat", TID: 0, SSI: true, CNI: true, Ext: 7, PAT: &astits.PATData{Programs: []*astits.PATProgram{{ProgramNumber: pn, ProgramMapID: uint16(v.At)}}}}
			s = append(s, packetise(v.PID, append([]byte{0}, twinSection(m)...), cc0)...)
			for i := range bs.pkts {
				s = append(s, pk(i)...)
			}
		case "dupadj", "dupsep":
			// an exact copy of the last packet of a PAT / PMT PID (the packet completing its last table) right behind the original, or
			// with a null packet of the multiplex in between: whatever the copy does to its PID, it does it in both multiplexes
			last := -1
			for i := range bs.pkts {
				if bs.pkts[i].PID == v.PID && bs.pkts[i].K == "" {
					last = i
				}
			}
			for i := range bs.pkts {
				s = append(s, pk(i)...)
				if i == last {
					if v.T == "dupsep" {
						f := pktSpec{PID: 0x1fff, K: "null", CC: rg.intn(16)}
						s = append(s, packetBytes(&f, nil, rg)...)
					}
					s = append(s, pk(i)...)
				}
			}
		case "resumeadj", "resumesep":
			// the input ends between two packets of a PID (everything is dumped), then more input arrives on the same reader and the caller
			// goes on: what the PID delivers is the same whether its next packet comes first or behind a null packet
			cut := -1
			for i := 0; i+1 < len(bs.pkts); i++ {
				if bs.pkts[i].PID == v.PID && bs.pkts[i+1].PID == v.PID && bs.pkts[i].K == "" && bs.pkts[i+1].K == "" {
					cut = i + 1
				}
			}
			if cut < 0 {
				continue
			}
			var part1, part2 []byte
			for i := 0; i < cut; i++ {
				part1 = append(part1, pk(i)...)
			}
			if v.T == "resumesep" {
				f := pktSpec{PID: 0x1fff, K: "null", CC: rg.intn(16)}
				part2 = append(part2, packetBytes(&f, nil, rg)...)
			}
			for i := cut; i < len(bs.pkts); i++ {
				part2 = append(part2, pk(i)...)
			}
			rec.ev(M{"ev": "variant", "r": run, "t": v.T, "cpid": v.PID, "mode": v.Mode, "k": v.K})
			gr := &growReader{b: part1}
			dmx := newDemuxer(gr, sc.Run)
			r := run
			for phase := 0; phase < 2; phase++ {
				drainData(dmx, len(part1)/188+len(part2)/188+len(bs.units)*4+10, func() int { return 0 }, func(e M) {
					e["run"] = r
					if e["ev"] == "eof" && phase == 0 {
						return // the first end of input: the caller waits for more
					}
					rec.ev(e)
				})
				gr.b = append(gr.b, part2...)
			}
			run++
			continue
		case "corrupt":
			for i := range bs.pkts {
				p := &bs.pkts[i]
				if p.PID != v.PID || p.K == "null" {
					s = append(s, pk(i)...)
					continue
				}
				switch v.Mode {
				case "dropall":
				case "dropsome":
					if rg.intn(2) == 0 {
						s = append(s, pk(i)...)
					}
				case "garbage":
					b := append([]byte(nil), pk(i)...)
					copy(b[4:], rg.bytes(184))
					b[3] = b[3]&0xcf | 0x10
					s = append(s, b...)
				case "tei":
					b := append([]byte(nil), pk(i)...)
					if rg.intn(2) == 0 {
						b[1] |= 0x80
					}
					s = append(s, b...)
				case "badaf": // an adaptation field that announces optional parts running past the packet: the packet cannot be parsed
					b := append([]byte(nil), pk(i)...)
					b[3] = b[3]&0xcf | 0x30
					b[4] = 183
					b[5] = 0x1f
					copy(b[6:], rg.bytes(10))
					b[186], b[187] = 0xff, 200
					s = append(s, b...)
				default:
					fatal("unknown corruption mode %q", v.Mode)
				}
			}
		default:
			fatal("unknown variant %q", v.T)
		}
		demuxRunN(s, v)
	}
}

// deepSkipChild (run as a child process of the C19 harness: a stack overflow cannot be recovered from): 600 000 packets in a row that the
// PacketSkipper drops, then three that it keeps, with the stack limited to 48 MB - the demuxer needs no stack per skipped packet.
// Exit status 0: the three packets came back and the end of the input was reached.
func deepSkipChild() {
	debug.SetMaxStack(48 << 20)
	const nskip = 600000
	i := 0
	gen := readerFunc(func(p []byte) (int, error) {
		if i >= nskip+3 || len(p) < 188 {
			return 0, io.EOF
		}
		for j := range p[:188] {
			p[j] = 0xff
		}
		pid := 0x1ffd
		if i >= nskip {
			pid = 0x1ff0
		}
		p[0], p[1], p[2], p[3] = 0x47, byte(pid>>8), byte(pid), 0x10|byte(i%16)
		i++
		return 188, nil
	})
	dmx := astits.NewDemuxer(context.Background(), gen, astits.DemuxerOptPacketSize(188),
		astits.DemuxerOptPacketSkipper(func(p *astits.Packet) bool { return p.Header.PID == 0x1ffd }))
	got := 0
	for {
		_, err := dmx.NextPacket()
		if err == astits.ErrNoMorePackets {
			break
		}
		if err != nil {
			os.Exit(3)
		}
		got++
	}
	if got != 3 {
		os.Exit(4)
	}
}

type readerFunc func(p []byte) (int, error)

func (f readerFunc) Read(p []byte) (int, error) { return f(p) }

// growReader: a reader that reports the end of its input and can be given more afterwards (a file being written, a buffer being filled)
type growReader struct {
	b   []byte
	pos int
}

func (g *growReader) Read(p []byte) (int, error) {
	if g.pos >= len(g.b) {
		return 0, io.EOF
	}
	n := copy(p, g.b[g.pos:])
	g.pos += n
	return n, nil
}

// ---------- C19: PacketSkipper and PacketsParser ----------

func hdrDigest(p *astits.Packet) string {
	h := p.Header
	s := fmt.Sprintf("%d/%d/%v/%v/%v/%v/%v/%d/", h.PID, h.ContinuityCounter, h.HasAdaptationField, h.HasPayload, h.PayloadUnitStartIndicator,
		h.TransportErrorIndicator, h.TransportPriority, h.TransportScramblingControl)
	return digest(append([]byte(s), p.Payload...))
}

// piOf evaluates the skip predicate on the abstract packet (independent of the library's parse)
func piOf(pred string, i int, p *pktSpec, seed uint64) bool {
	switch {
	case pred == "all":
		return true
	case pred == "none":
		return false
	case pred == "pusi":
		return p.PUSI
	case pred == "nopusi":
		return !p.PUSI
	case pred == "cceven":
		return p.CC%2 == 0
	case pred == "rai":
		return p.RAI
	case pred == "haf":
		return p.K == "afonly" || (p.K == "" && p.N < 184)
	case pred == "random":
		return newRng(seed^uint64(i)*7919).intn(3) == 0
	case len(pred) > 4 && pred[:4] == "pid:":
		var pid int
		fmt.Sscanf(pred[4:], "%d", &pid)
		return p.PID == pid
	}
	fatal("unknown skip predicate %q", pred)
	return false
}

func runSkip(sc *streamScenario, rec *recorder) {
	bs := buildStream(sc.Units, sc.Pkts, sc.PMTPIDs, sc.Seed, sc.Complete)
	rec.ev(M{"ev": "reset", "t": sc.SID, "kind": "skip", "npkts": len(bs.pkts), "skip": sc.Skip, "parser": sc.Parser})
	var filtered []byte
	for i := range bs.pkts {
		p := &bs.pkts[i]
		pi := piOf(sc.Skip, i, p, sc.Seed)
		haf := p.K == "afonly" || (p.K == "" && p.N < 184)
		rai := p.RAI && haf && (p.K == "afonly" || p.N <= 182)
		rec.ev(M{"ev": "spkt", "i": i, "pid": pidOfSpec(p), "cc": p.CC & 15, "pusi": p.PUSI && p.K == "", "haf": haf, "rai": rai, "pi": pi})
		if !pi {
			filtered = append(filtered, bs.bytes[i*188:(i+1)*188]...)
		}
	}
	unitEvents(bs, rec)
	bound := len(bs.pkts) + len(bs.units)*4 + 10
	pass := func(run string, stream []byte, opts ...func(*astits.Demuxer)) {
		// packets
		dmx := newDemuxer(bytes.NewReader(stream), sc.Run, opts...)
		for k := 0; k < bound; k++ {
			p, err := dmx.NextPacket()
			if err != nil {
				if err == astits.ErrNoMorePackets {
					rec.ev(M{"ev": "peof", "run": run})
				} else {
					rec.ev(M{"ev": "perr", "run": run, "msg": err.Error()})
				}
				break
			}
			rec.ev(M{"ev": "packet", "run": run, "pid": int(p.Header.PID), "hdg": hdrDigest(p)})
		}
	}
	data := func(run string, stream []byte, opts ...func(*astits.Demuxer)) {
		dmx := newDemuxer(bytes.NewReader(stream), sc.Run, opts...)
		drainData(dmx, bound, func() int { return 0 }, func(e M) {
			e["run"] = run
			if e["ev"] == "deliver" && e["kind"] == "empty" {
				e["kind"] = "custom"
			}
			rec.ev(e)
		})
	}
	// skipper
	mkSkipper := func(run string, log bool) astits.PacketSkipper {
		n := 0
		return func(p *astits.Packet) bool {
			i := n
			n++
			haf := p.Header.HasAdaptationField
			rai := haf && p.AdaptationField != nil && p.AdaptationField.RandomAccessIndicator
			if log {
				rec.ev(M{"ev": "skipcb", "run": run, "i": i, "pid": int(p.Header.PID), "cc": int(p.Header.ContinuityCounter), "pusi": p.Header.PayloadUnitStartIndicator,
					"haf": haf, "rai": rai, "afparsed": !haf || p.AdaptationField != nil, "nopayload": p.Payload == nil})
			}
			if i < len(bs.pkts) {
				return piOf(sc.Skip, i, &bs.pkts[i], sc.Seed)
			}
			return false
		}
	}
	full := bs.bytes
	pass("base", full)
	data("base", full)
	pass("skipA", full, astits.DemuxerOptPacketSkipper(mkSkipper("skipA", true)))
	data("skipA", full, astits.DemuxerOptPacketSkipper(mkSkipper("skipAd", false)))
	pass("skipB", filtered)
	data("skipB", filtered)
	// the skipper stays in force across Rewind (explicit and auto-detected packet size): after some consumption and a Rewind the
	// demuxer returns what it returns for the filtered stream
	rgk := newRng(sc.Seed ^ 0x5151)
	rewound := func(run string, stream []byte, skipper bool, auto bool) {
		n := 0
		sk := func(p *astits.Packet) bool {
			i := n
			n++
			if skipper && i < len(bs.pkts) {
				return piOf(sc.Skip, i, &bs.pkts[i], sc.Seed)
			}
			return false
		}
		var dmx *astits.Demuxer
		if auto {
			dmx = astits.NewDemuxer(context.Background(), bytes.NewReader(stream), astits.DemuxerOptPacketSkipper(sk))
		} else {
			dmx = newDemuxer(bytes.NewReader(stream), sc.Run, astits.DemuxerOptPacketSkipper(sk))
		}
		// everything once (the program map a Demuxer keeps across Rewind is then the same in every run), then part of it again
		for k := 0; k < bound; k++ {
			if _, err := dmx.NextData(); err != nil {
				break
			}
		}
		dmx.Rewind()
		n = 0
		if skipper {
			for i, k := 0, rgk.intn(len(bs.pkts)+2); i < k; i++ {
				if i%2 == 0 {
					dmx.NextPacket()
				} else {
					dmx.NextData()
				}
			}
			dmx.Rewind()
			n = 0
		}
		for k := 0; k < bound; k++ {
			p, err := dmx.NextPacket()
			if err != nil {
				if err == astits.ErrNoMorePackets {
					rec.ev(M{"ev": "peof", "run": run})
				} else {
					rec.ev(M{"ev": "perr", "run": run, "msg": err.Error()})
				}
				break
			}
			rec.ev(M{"ev": "packet", "run": run, "pid": int(p.Header.PID), "hdg": hdrDigest(p)})
		}
		dmx.Rewind()
		n = 0
		drainData(dmx, bound, func() int { return 0 }, func(e M) {
			e["run"] = run
			rec.ev(e)
		})
	}
	// the context becomes done while a call is skipping packets (cancelled from inside the predicate, at a packet it selects): the
	// call goes on to the next packet that is kept or ends with an error; a packet the predicate selects is never returned
	{
		ctx, cancel := context.WithCancel(context.Background())
		var sel []int
		for i := range bs.pkts {
			if piOf(sc.Skip, i, &bs.pkts[i], sc.Seed) {
				sel = append(sel, i)
			}
		}
		at := -1
		if len(sel) > 0 {
			at = sel[rgk.intn(len(sel))]
		}
		n := 0
		sk := func(p *astits.Packet) bool {
			i := n
			n++
			if i == at {
				cancel()
			}
			if i < len(bs.pkts) {
				return piOf(sc.Skip, i, &bs.pkts[i], sc.Seed)
			}
			return false
		}
		dmx := astits.NewDemuxer(ctx, bytes.NewReader(full), astits.DemuxerOptPacketSize(188), astits.DemuxerOptPacketSkipper(sk))
		for k := 0; k < bound; k++ {
			p, err := dmx.NextPacket()
			if err != nil {
				break
			}
			rec.ev(M{"ev": "packet", "run": "skipCtx", "pid": int(p.Header.PID), "hdg": hdrDigest(p)})
		}
		rec.ev(M{"ev": "eof", "run": "skipCtx"})
		cancel()
	}
	rewound("skipBR", filtered, false, false)
	rewound("skipRe", full, true, false)
	if len(bs.pkts) >= 3 && sc.Run.PSize == 0 {
		rewound("skipRa", full, true, true)
	}
	// packets parser
	g := 0
	type keptGroup struct {
		ps   []*astits.Packet
		pids []int
		ccs  []int
	}
	var keptGroups []keptGroup
	observer := func(ps []*astits.Packet) ([]*astits.DemuxerData, bool, error) {
		e := M{"ev": "parsecb", "run": "parserObs", "g": g, "n": len(ps)}
		g++
		var pids, ccs []int
		for _, p := range ps {
			pids = append(pids, int(p.Header.PID))
			ccs = append(ccs, int(p.Header.ContinuityCounter))
		}
		e["pids"], e["ccs"] = pids, ccs
		if len(ps) > 0 {
			e["pusi"] = ps[0].Header.PayloadUnitStartIndicator
		}
		rec.ev(e)
		keptGroups = append(keptGroups, keptGroup{ps, pids, ccs}) // a parser may keep what it was handed
		return nil, false, nil
	}
	data("parserObs", full, astits.DemuxerOptPacketsParser(observer))
	changed := 0
	for _, kg := range keptGroups {
		for k, p := range kg.ps {
			if p == nil || int(p.Header.PID) != kg.pids[k] || int(p.Header.ContinuityCounter) != kg.ccs[k] {
				changed++
				break
			}
		}
	}
	rec.ev(M{"ev": "parsekept", "run": "parserObs", "groups": len(keptGroups), "changed": changed})
	g2 := 0
	replacer := func(ps []*astits.Packet) ([]*astits.DemuxerData, bool, error) {
		k := g2
		g2++
		// one or two data per unit, with and without a first packet, with and without content: what is delivered is exactly these, as they
		// were when the parser returned them
		var out []*astits.DemuxerData
		ret := []string{}
		for j := 0; j <= k%2; j++ {
			d := &astits.DemuxerData{PID: uint16(k)}
			if (k+j)%3 == 0 && len(ps) > 0 {
				d.FirstPacket = &astits.Packet{Header: ps[0].Header}
			}
			if j == 1 {
				d.PES = &astits.PESData{Data: []byte{byte(k), 1, 2}, Header: &astits.PESHeader{StreamID: 0xe0}}
			}
			js, _ := json.Marshal(d)
			ret = append(ret, digest(js))
			out = append(out, d)
		}
		rec.ev(M{"ev": "parsecb", "run": "parserRep", "g": k, "n": len(ps), "pids": []int{}, "ccs": []int{}, "pusi": true, "ret": ret})
		return out, true, nil
	}
	data("parserRep", full, astits.DemuxerOptPacketsParser(replacer))
	g3 := 0
	failing := func(ps []*astits.Packet) ([]*astits.DemuxerData, bool, error) {
		k := g3
		g3++
		if k%3 == 1 {
			rec.ev(M{"ev": "parsefail", "run": "parserFail", "g": k})
			return nil, false, errInjected
		}
		return nil, false, nil
	}
	data("parserFail", full, astits.DemuxerOptPacketsParser(failing))
	// an observer that hands back data of its own together with skip=false: the default output is unchanged all the same - also for
	// units that are neither PSI nor PES (a payload without start code, the CAT PID), whose default output is nothing
	mk := func(pid int, cc int, first byte) []byte {
		b := make([]byte, 188)
		for j := range b {
			b[j] = first
		}
		b[0], b[1], b[2], b[3] = 0x47, 0x40|byte(pid>>8), byte(pid), 0x10|byte(cc)
		return b
	}
	full2 := append(append([]byte(nil), full...), mk(0x1ff0, 3, 0x55)...)
	full2 = append(append(full2, mk(1, 7, 0x55)...), mk(0x1ff0, 4, 0x66)...)
	data("base2", full2)
	withData := func(ps []*astits.Packet) ([]*astits.DemuxerData, bool, error) {
		return []*astits.DemuxerData{{PID: 0x1eee}}, false, nil
	}
	data("parserObsDs", full2, astits.DemuxerOptPacketsParser(withData))
	{
		// packets of a foreign PID whose adaptation_field_length runs past the packet (184..255, flags 0: the library parses them as empty
		// adaptation-only / payload-less packets) selected by the predicate: skipping them equals deleting them
		rgj := newRng(sc.Seed ^ 0x1a1a)
		var withJunk []byte
		at := rgj.intn(len(bs.pkts) + 1)
		for i := 0; i <= len(bs.pkts); i++ {
			if i == at {
				for j := 0; j < 2; j++ {
					b := make([]byte, 188)
					b[0], b[1], b[2], b[3], b[4], b[5] = 0x47, 0x1a, 0xbe, byte(rgj.pick(0x20, 0x30))|byte(j), byte(rgj.pick(184, 200, 255)), byte(rgj.pick(0x00, 0x40))
					for q := 6; q < 188; q++ {
						b[q] = 0xff
					}
					withJunk = append(withJunk, b...)
				}
			}
			if i < len(bs.pkts) {
				withJunk = append(withJunk, full[i*188:(i+1)*188]...)
			}
		}
		ncb, nsel := 0, 0
		skipper := func(p *astits.Packet) bool {
			ncb++
			if p.Header.PID == 0x1abe {
				nsel++
				return true
			}
			return false
		}
		var got, want []string
		errs := 0
		for ps, st := range [][]byte{withJunk, full} {
			var opts []func(*astits.Demuxer)
			if ps == 0 {
				opts = append(opts, astits.DemuxerOptPacketSkipper(skipper))
			}
			dmx := newDemuxer(bytes.NewReader(st), sc.Run, opts...)
			for k := 0; k < bound+4; k++ {
				p, err := dmx.NextPacket()
				if err == astits.ErrNoMorePackets {
					break
				}
				if err != nil {
					if ps == 0 {
						errs++
					}
					continue
				}
				if ps == 0 {
					got = append(got, hdrDigest(p))
				} else {
					want = append(want, hdrDigest(p))
				}
			}
		}
		same := len(got) == len(want)
		for i := 0; same && i < len(got); i++ {
			same = got[i] == want[i]
		}
		if sc.Run.PSize >= 0 { // (under auto-detection such a packet among the first two changes what is detected)
			rec.ev(M{"ev": "longskip", "npkts": len(withJunk) / 188, "ncb": ncb, "nret": len(got), "nfiltered": len(want), "same": same && errs == 0 && nsel == 2})
		}
	}
	if sc.Run.API == "longskip" {
		// a very long run of skipped packets (more than 65 536 in a row, on one PID) in front of a few kept ones: counted, not listed
		rg := newRng(sc.Seed ^ 0x1919)
		for _, nskip := range []int{65535, 65536, 65537, 131075} {
			var long, kept []byte
			for i := 0; i < nskip; i++ {
				f := pktSpec{PID: 0x1ffd, K: "null", CC: i % 16}
				b := packetBytes(&f, nil, rg)
				b[1], b[2] = 0x1f, 0xfd
				long = append(long, b...)
			}
			for i := 0; i < 5; i++ {
				b := mk(0x1ff0, i, byte(0x40+i))
				long = append(long, b...)
				kept = append(kept, b...)
			}
			ncb := 0
			skipper := func(p *astits.Packet) bool {
				ncb++
				return p.Header.PID == 0x1ffd
			}
			var got, want []string
			for pass, st := range [][]byte{long, kept} {
				var opts []func(*astits.Demuxer)
				if pass == 0 {
					opts = append(opts, astits.DemuxerOptPacketSkipper(skipper))
				}
				dmx := newDemuxer(bytes.NewReader(st), sc.Run, opts...)
				for k := 0; k < 20; k++ {
					p, err := dmx.NextPacket()
					if err != nil {
						break
					}
					if pass == 0 {
						got = append(got, hdrDigest(p))
					} else {
						want = append(want, hdrDigest(p))
					}
				}
			}
			same := len(got) == len(want)
			for i := 0; same && i < len(got); i++ {
				same = got[i] == want[i]
			}
			rec.ev(M{"ev": "longskip", "npkts": nskip + 5, "ncb": ncb, "nret": len(got), "nfiltered": len(want), "same": same})
		}
		// 600 000 skipped packets in a row with a small stack, in a child process (deepSkipChild)
		{
			cctx, cancel := context.WithTimeout(context.Background(), 120*time.Second)
			err := exec.CommandContext(cctx, os.Args[0], "deepskip").Run()
			cancel()
			rec.ev(M{"ev": "longskip", "npkts": 600003, "ncb": 600003, "nret": 3, "nfiltered": 3, "same": err == nil})
		}
	}
}

func pidOfSpec(p *pktSpec) int {
	if p.K == "null" {
		return 0x1fff
	}
	return p.PID
}

// ---------- C20: Rewind ----------

func runRewind(sc *streamScenario, rec *recorder) {
	bs := buildStream(sc.Units, sc.Pkts, sc.PMTPIDs, sc.Seed, sc.Complete)
	runRewindOn(sc, sc.SID, bs, rec)
	if sc.Run.PSize == -1 && len(bs.pkts) >= 2 {
		// the same stream behind 193 bytes that are no packet: under auto-detection the first attempt of a fresh Demuxer fails (and consumes
		// its window), the second one succeeds. A rewound Demuxer has to go through exactly the same
		junk := make([]byte, 193)
		for i := range junk {
			junk[i] = byte(0x10 + i%0x30)
		}
		bs.bytes = append(junk, bs.bytes...)
		runRewindOn(sc, sc.SID+"/junk193", bs, rec)
	}
}

func runRewindOn(sc *streamScenario, sid string, bs *builtStream, rec *recorder) {
	rec.ev(M{"ev": "reset", "t": sid, "kind": "rewind", "npkts": len(bs.pkts), "psize": sc.Run.PSize})
	unitEvents(bs, rec)
	bound := len(bs.pkts) + len(bs.units)*4 + 10
	rg := newRng(sc.Seed ^ 0x4242)
	// run 0: a fresh demuxer
	total := 0
	rec.ev(M{"ev": "variant", "r": 0, "k": -1, "api": "data", "again": -1})
	{
		dmx := newDemuxer(bytes.NewReader(bs.bytes), sc.Run)
		drainData(dmx, bound, func() int { return 0 }, func(e M) {
			e["run"] = 0
			if e["ev"] != "eof" {
				total++
			}
			rec.ev(e)
		})
	}
	npk := len(bs.pkts)
	type plan struct {
		k     int
		api   string
		again int
	}
	var plans []plan
	maxK := total + 1
	step := 1
	if sc.Run.API == "sample" && maxK > 10 {
		step = maxK / 10
	}
	for k := 0; k <= maxK; k += step {
		plans = append(plans, plan{k, "data", -1})
	}
	for k := 0; k <= npk+1; k += 1 + npk/8 {
		plans = append(plans, plan{k, "packet", -1})
	}
	plans = append(plans, plan{rg.intn(maxK + 1), "mixed", rg.intn(maxK + 1)}, plan{rg.intn(maxK + 1), "data", rg.intn(maxK + 1)})
	for r, pl := range plans {
		run := r + 1
		rec.ev(M{"ev": "variant", "r": run, "k": pl.k, "api": pl.api, "again": pl.again})
		rd := bytes.NewReader(bs.bytes)
		dmx := newDemuxer(rd, sc.Run)
		call := func(i int) {
			usePacket := pl.api == "packet" || (pl.api == "mixed" && i%2 == 0)
			safeCall(func() {
				if usePacket {
					dmx.NextPacket()
				} else {
					dmx.NextData()
				}
			})
		}
		for i := 0; i < pl.k; i++ {
			call(i)
		}
		rew := func() {
			var n int64
			var err error
			p := safeCall(func() { n, err = dmx.Rewind() })
			rec.ev(M{"ev": "rewind", "run": run, "n": int(n), "err": errClass(err), "panic": p != nil})
		}
		rew()
		if pl.again >= 0 {
			for i := 0; i < pl.again; i++ {
				call(i)
			}
			rew()
		}
		drainData(dmx, bound, func() int { return 0 }, func(e M) {
			e["run"] = run
			rec.ev(e)
		})
	}
	// three more histories, each with its own reference run (variant r = -2) recorded just before it
	{
		run := 1000
		ref := func(api string, f func(emit func(M))) {
			rec.ev(M{"ev": "variant", "r": -2, "k": -1, "api": api, "again": -1})
			f(func(e M) {
				e["run"] = -2
				rec.ev(e)
			})
		}
		drainN := func(dmx *astits.Demuxer, n int, emit func(M)) { // a bounded look at a demuxer that will not reach the end of its input
			for c := 0; c < n; c++ {
				var d *astits.DemuxerData
				var err error
				if p := safeCall(func() { d, err = dmx.NextData() }); p != nil {
					emit(M{"ev": "derr", "panic": true, "msg": fmt.Sprint(p)})
					continue
				}
				if err != nil {
					emit(M{"ev": "derr", "panic": false, "msg": err.Error()})
					continue
				}
				emit(deliverEvent(d))
			}
			emit(M{"ev": "eof", "calls": n})
		}
		drainPackets := func(dmx *astits.Demuxer, emit func(M)) {
			for c := 0; c < bound; c++ {
				var p *astits.Packet
				var err error
				if pn := safeCall(func() { p, err = dmx.NextPacket() }); pn != nil {
					emit(M{"ev": "derr", "panic": true, "msg": fmt.Sprint(pn)})
					continue
				}
				if err == astits.ErrNoMorePackets {
					break
				}
				if err != nil {
					emit(M{"ev": "derr", "panic": false, "msg": err.Error()})
					continue
				}
				emit(M{"ev": "deliver", "dg": hdrDigest(p), "pid": int(p.Header.PID)})
			}
			emit(M{"ev": "eof"})
		}
		// (1) the reader fails once (not an end of file) somewhere before the Rewind; after the Rewind the reader is sound: a fresh pass
		{
			run++
			failAt := rg.intn(len(bs.bytes) + 1)
			ref("data", func(emit func(M)) {
				drainData(newDemuxer(bytes.NewReader(bs.bytes), sc.Run), bound, func() int { return 0 }, emit)
			})
			fr := &flakySeekReader{r: bytes.NewReader(bs.bytes), failAt: int64(failAt)}
			dmx := newDemuxer(fr, sc.Run)
			for c := 0; c < bound && !fr.fired; c++ {
				safeCall(func() { dmx.NextData() })
			}
			rec.ev(M{"ev": "variant", "r": run, "k": failAt, "api": "after-reader-error", "again": -1})
			var n int64
			var err error
			pn := safeCall(func() { n, err = dmx.Rewind() })
			rec.ev(M{"ev": "rewind", "run": run, "n": int(n), "err": errClass(err), "panic": pn != nil})
			drainData(dmx, bound, func() int { return 0 }, func(e M) {
				e["run"] = run
				rec.ev(e)
			})
		}
		// (2) the context is cancelled between a NextData call and the Rewind: Rewind itself is unaffected, what was parsed before it is gone,
		// and the demuxer then answers like a fresh one whose context is done
		{
			run++
			k := rg.intn(maxK + 1)
			ref("data", func(emit func(M)) {
				cctx, cancel := context.WithCancel(context.Background())
				cancel()
				drainN(newDemuxerCtx(cctx, bytes.NewReader(bs.bytes), sc.Run), 5, emit)
			})
			cctx, cancel := context.WithCancel(context.Background())
			dmx := newDemuxerCtx(cctx, bytes.NewReader(bs.bytes), sc.Run)
			for c := 0; c < k; c++ {
				safeCall(func() { dmx.NextData() })
			}
			cancel()
			rec.ev(M{"ev": "variant", "r": run, "k": k, "api": "context-cancelled-before-rewind", "again": -1})
			var n int64
			var err error
			pn := safeCall(func() { n, err = dmx.Rewind() })
			rec.ev(M{"ev": "rewind", "run": run, "n": int(n), "err": errClass(err), "panic": pn != nil})
			drainN(dmx, 5, func(e M) {
				e["run"] = run
				rec.ev(e)
			})
		}
		// (3) NextData calls, Rewind, then the packets one by one (a stream with an adaptation-only and a transport-error packet in it):
		// every packet comes back, as from a fresh demuxer read with NextPacket
		{
			run++
			var s2 []byte
			mid := (len(bs.pkts) / 2) * 188
			s2 = append(s2, bs.bytes[:mid]...)
			for _, kk := range []string{"afonly", "tei", "null"} {
				f := pktSpec{PID: 0x1abc, K: kk, CC: rg.intn(16)}
				s2 = append(s2, packetBytes(&f, nil, rg)...)
			}
			s2 = append(s2, bs.bytes[mid:]...)
			ref("packet", func(emit func(M)) { drainPackets(newDemuxer(bytes.NewReader(s2), sc.Run), emit) })
			dmx := newDemuxer(bytes.NewReader(s2), sc.Run)
			k := rg.intn(maxK + 1)
			for c := 0; c < k; c++ {
				safeCall(func() { dmx.NextData() })
			}
			rec.ev(M{"ev": "variant", "r": run, "k": k, "api": "data-then-packets", "again": -1})
			var n int64
			var err error
			pn := safeCall(func() { n, err = dmx.Rewind() })
			rec.ev(M{"ev": "rewind", "run": run, "n": int(n), "err": errClass(err), "panic": pn != nil})
			drainPackets(dmx, func(e M) {
				e["run"] = run
				rec.ev(e)
			})
		}
	}
	// (5) the same Demuxer goes on with another input after the Rewind (the reader was given new content of another packet size): under
	// auto-detection the size is detected again
	if sc.Run.PSize == -1 && len(bs.pkts) >= 2 {
		for _, sz := range []int{192, 190} {
			other := reframe(bs.bytes, sz, rg)
			rec.ev(M{"ev": "variant", "r": -2, "k": -1, "api": "data", "again": -1})
			drainData(newDemuxer(bytes.NewReader(other), sc.Run), bound, func() int { return 0 }, func(e M) {
				e["run"] = -2
				rec.ev(e)
			})
			rd := bytes.NewReader(bs.bytes)
			dmx := newDemuxer(rd, sc.Run)
			k := rg.intn(maxK + 1)
			for c := 0; c < k; c++ {
				safeCall(func() { dmx.NextData() })
			}
			rd.Reset(other)
			rec.ev(M{"ev": "variant", "r": 3000 + sz, "k": k, "api": "new-content-of-another-packet-size", "again": -1})
			var n int64
			var err error
			pn := safeCall(func() { n, err = dmx.Rewind() })
			rec.ev(M{"ev": "rewind", "run": 3000 + sz, "n": int(n), "err": errClass(err), "panic": pn != nil})
			drainData(dmx, bound, func() int { return 0 }, func(e M) {
				e["run"] = 3000 + sz
				rec.ev(e)
			})
		}
	}
	// (6) the reader is handed to NewDemuxer positioned behind its first packet (the caller looked at it): Rewind goes back to offset 0 and
	// the whole stream is delivered as by a fresh Demuxer
	if len(bs.pkts) >= 3 {
		rec.ev(M{"ev": "variant", "r": -2, "k": -1, "api": "data", "again": -1})
		drainData(newDemuxer(bytes.NewReader(bs.bytes), sc.Run), bound, func() int { return 0 }, func(e M) {
			e["run"] = -2
			rec.ev(e)
		})
		rd := bytes.NewReader(bs.bytes)
		rd.Seek(188, io.SeekStart)
		dmx := newDemuxer(rd, sc.Run)
		k := 1 + rg.intn(maxK+1)
		for c := 0; c < k; c++ {
			safeCall(func() { dmx.NextData() })
		}
		rec.ev(M{"ev": "variant", "r": 4000, "k": k, "api": "reader-handed-over-behind-the-first-packet", "again": -1})
		var n int64
		var err error
		pn := safeCall(func() { n, err = dmx.Rewind() })
		rec.ev(M{"ev": "rewind", "run": 4000, "n": int(n), "err": errClass(err), "panic": pn != nil})
		drainData(dmx, bound, func() int { return 0 }, func(e M) {
			e["run"] = 4000
			rec.ev(e)
		})
	}
	// (4) a unit of two sections whose second one is damaged (the first is delivered, the unit's error comes with a later call), Rewind in
	// between: the error belongs to the pass before the Rewind
	{
		mkPAT := func(pn, pid int) []byte {
			return twinSection(&tableModel{K: "pat", TID: 0, SSI: true, CNI: true, Ext: 5, PAT: &astits.PATData{Programs: []*astits.PATProgram{{ProgramNumber: uint16(pn), ProgramMapID: uint16(pid)}}}})
		}
		sec2 := mkPAT(2, 0x101)
		sec2[len(sec2)-1] ^= 0x10
		unit := append(append([]byte{0}, mkPAT(1, 0x100)...), sec2...)
		s4 := packetise(0, unit, 3)
		for u := 0; u < 3; u++ {
			pes := append([]byte{0, 0, 1, 0xe0, 0, 0, 0x80, 0, 0}, rg.bytes(rg.pick(50, 200, 400))...)
			s4 = append(s4, packetise(0x200, pes, len(s4)/188)...)
		}
		for k := 0; k <= 3; k++ {
			rec.ev(M{"ev": "variant", "r": -2, "k": -1, "api": "data", "again": -1})
			drainData(newDemuxer(bytes.NewReader(s4), sc.Run), 30, func() int { return 0 }, func(e M) {
				e["run"] = -2
				rec.ev(e)
			})
			dmx := newDemuxer(bytes.NewReader(s4), sc.Run)
			for c := 0; c < k; c++ {
				safeCall(func() { dmx.NextData() })
			}
			rec.ev(M{"ev": "variant", "r": 2000 + k, "k": k, "api": "half-parsed-unit", "again": -1})
			var n int64
			var err error
			pn := safeCall(func() { n, err = dmx.Rewind() })
			rec.ev(M{"ev": "rewind", "run": 2000 + k, "n": int(n), "err": errClass(err), "panic": pn != nil})
			drainData(dmx, 30, func() int { return 0 }, func(e M) {
				e["run"] = 2000 + k
				rec.ev(e)
			})
		}
	}
	// a reader that cannot seek (explicit packet size: detection on such a reader loses packets by design): Rewind leaves it where it is
	// and the demuxer goes on with the rest of the input as a fresh one would - no residue of what was seen before
	if sc.Run.PSize >= 0 {
		run := len(plans)
		for _, pl := range []plan{{rg.intn(maxK + 1), "data", -1}, {rg.intn(npk + 1), "packet", -1}, {rg.intn(maxK + 1), "mixed", -1}} {
			run++
			cr := &countReader{r: bytes.NewReader(bs.bytes)}
			dmx := newDemuxer(plainReader{cr}, sc.Run)
			for i := 0; i < pl.k; i++ {
				usePacket := pl.api == "packet" || (pl.api == "mixed" && i%2 == 0)
				safeCall(func() {
					if usePacket {
						dmx.NextPacket()
					} else {
						dmx.NextData()
					}
				})
			}
			pos := cr.pulled
			var n int64
			var err error
			pn := safeCall(func() { n, err = dmx.Rewind() })
			// the reference: a fresh demuxer over what the reader has left
			rec.ev(M{"ev": "variant", "r": -2, "k": pl.k, "api": "suffix", "again": -1, "pos": pos})
			ref := newDemuxer(bytes.NewReader(bs.bytes[pos:]), sc.Run)
			drainData(ref, bound, func() int { return 0 }, func(e M) {
				e["run"] = -2
				rec.ev(e)
			})
			rec.ev(M{"ev": "variant", "r": run, "k": pl.k, "api": "noseek-" + pl.api, "again": -1, "pos": pos})
			rec.ev(M{"ev": "rewind", "run": run, "n": int(n), "err": errClass(err), "panic": pn != nil})
			drainData(dmx, bound, func() int { return 0 }, func(e M) {
				e["run"] = run
				rec.ev(e)
			})
		}
	}
}

// ---------- C08: read fragmentation, reader kinds, framing ----------

// reframe carries the 188-byte packets in frames of size bytes: sync byte, size-188 ignored bytes, the packet's other 187 bytes
func reframe(stream []byte, size int, rg *rng) []byte {
	k := size - 188
	out := make([]byte, 0, len(stream)/188*size)
	for i := 0; i+188 <= len(stream); i += 188 {
		out = append(out, 0x47)
		for j := 0; j < k; j++ {
			out = append(out, byte(rg.pick(0x00, 0xff, 0x11, 0x48, 0x46)))
		}
		out = append(out, stream[i+1:i+188]...)
	}
	return out
}

type readerCfg struct {
	size   int // frame size
	auto   bool
	reader string
	sched  []int
	desc   string
}

func runReader(sc *streamScenario, rec *recorder, level int) {
	bs := buildStream(sc.Units, sc.Pkts, sc.PMTPIDs, sc.Seed, sc.Complete)
	if sc.Run.API == "gtail" {
		// the stream starts with a null packet whose last payload byte is 0x47: in frames of 189..192 bytes that byte sits between the two
		// sync bytes the size detection looks for
		np := bytes.Repeat([]byte{0xff}, 188)
		np[0], np[1], np[2], np[3], np[187] = 0x47, 0x1f, 0xff, 0x10, 0x47
		bs.bytes = append(np, bs.bytes...)
		bs.pkts = append([]pktSpec{{PID: 0x1fff, K: "null"}}, bs.pkts...)
	}
	rec.ev(M{"ev": "reset", "t": sc.SID, "kind": "reader", "npkts": len(bs.pkts)})
	rg := newRng(sc.Seed ^ 0x8888)
	bound := len(bs.pkts) + len(bs.units)*4 + 10
	frames := map[int][]byte{188: bs.bytes}
	for _, sz := range []int{189, 190, 191, 192, 204, 250} {
		frames[sz] = reframe(bs.bytes, sz, rg)
	}
	var cfgs []readerCfg
	add := func(size int, auto bool, reader string, sched []int, desc string) {
		cfgs = append(cfgs, readerCfg{size, auto, reader, sched, desc})
	}
	add(188, false, "bytes", nil, "reference") // run 0
	for _, sz := range []int{188, 189, 190, 191, 192} {
		for _, rd := range []string{"bytes", "bufio", "plain", "seekoff", "seekfail"} {
			add(sz, true, rd, nil, "full")
		}
	}
	for _, sz := range []int{192, 204, 250, 190} {
		for _, rd := range []string{"bytes", "bufio", "plain"} {
			add(sz, false, rd, nil, "full")
		}
	}
	// reads that return no byte and no error (io.Reader allows them) between small reads: more than a hundred per packet, never many in a row
	for j, zs := range [][]int{{1, 0}, {0, 0, 3}, {2, 0}, {0, 1}} {
		add([]int{188, 192, 204}[j%3], false, "chunk", zs, fmt.Sprintf("emptyreads%d", j))
		add([]int{188, 192}[j%2], true, "chunkseek", zs, fmt.Sprintf("emptyreads%d", j))
		add(204, false, "chunkseek", zs, fmt.Sprintf("emptyreads%d", j))
	}
	for _, bsz := range []int{16, 64, 100, 187, 188, 200, 203, 204} {
		add([]int{188, 192, 204}[bsz%3], false, "bufiosmall", []int{bsz}, fmt.Sprintf("buffer%d", bsz))
	}
	fixed := []int{1, 2, 3, 7, 100, 187, 188, 189, 192, 193, 194, 376, 400}
	if level > 1 {
		fixed = nil
		for c := 1; c <= 400; c++ {
			fixed = append(fixed, c)
		}
	}
	for _, c := range fixed {
		sz := []int{188, 192, 204}[c%3]
		add(sz, false, "chunk", []int{c}, fmt.Sprintf("fixed%d", c))
		add([]int{188, 189, 192}[c%3], true, "chunkseek", []int{c}, fmt.Sprintf("fixed%d", c))
		add([]int{188, 190, 192}[c%3], true, "bufiochunk", []int{c}, fmt.Sprintf("fixed%d", c))
		add([]int{188, 191, 192}[c%3], true, "chunk", []int{c}, fmt.Sprintf("fixed%d", c))
	}
	nb := 12
	if level > 1 {
		nb = 400
	}
	for j := 0; j < nb; j++ {
		off := 1 + rg.intn(400)
		if level > 1 {
			off = j + 1
		}
		s := []int{off, 1 << 20}
		add(188, false, "chunk", s, fmt.Sprintf("boundary%d", off))
		add([]int{188, 192}[j%2], true, "chunkseek", s, fmt.Sprintf("boundary%d", off))
		add([]int{188, 192}[j%2], true, "bufiochunk", s, fmt.Sprintf("boundary%d", off))
	}
	nr := 6
	if level > 1 {
		nr = 60
	}
	for j := 0; j < nr; j++ {
		var s []int
		for i := 0; i < 50; i++ {
			s = append(s, rg.pick(1, 2, 5, 50, 187, 188, 189, 300, 1+rg.intn(400)))
		}
		add([]int{188, 192, 204}[j%3], false, "chunk", s, "random")
		add([]int{188, 189, 190, 191, 192}[j%5], true, "chunkseek", s, "random")
		add([]int{188, 189, 190, 191, 192}[j%5], true, "bufiochunk", s, "random")
		add([]int{188, 192}[j%2], true, "chunk", s, "random")
	}
	// readers that deliver the final bytes together with io.EOF: whole-packet reads, one big read, odd sizes
	for _, k := range []int{188, 376, 1 << 20, 100, 189, 1} {
		add(188, false, "dataerr", []int{k}, fmt.Sprintf("dataerr%d", k))
		add(192, false, "dataerr", []int{k + 4}, fmt.Sprintf("dataerr%d", k+4))
	}
	// a capture cut just inside a packet: n whole packets plus 1..4 (and more) bytes of the next, explicit and auto-detected
	trunc := map[string][]byte{}
	for _, whole := range []int{1, 2, len(bs.pkts) - 1} {
		for _, extra := range []int{1, 2, 3, 4, 5, 100, 187} {
			if whole < 1 || whole >= len(bs.pkts) {
				continue
			}
			name := fmt.Sprintf("cut%d+%d", whole, extra)
			trunc[name] = bs.bytes[:whole*188+extra]
			for _, rd := range []string{"bytes", "bufio", "chunkseek"} {
				cfgs = append(cfgs, readerCfg{188, true, rd, []int{97}, name})
			}
		}
	}
	refTrunc := map[string][2][]string{}
	for r, c := range cfgs {
		stream := frames[c.size]
		if t, ok := trunc[c.desc]; ok {
			// truncated input: the reference is the explicit-size run over the same truncated bytes
			if _, done := refTrunc[c.desc]; !done {
				var pk, dd []string
				dmx := newDemuxer(bytes.NewReader(t), demuxRun{})
				for k := 0; k < bound; k++ {
					p, err := dmx.NextPacket()
					if err != nil {
						break
					}
					pk = append(pk, hdrDigest(p))
				}
				dmx = newDemuxer(bytes.NewReader(t), demuxRun{})
				drainData(dmx, bound, func() int { return 0 }, func(e M) {
					if e["ev"] == "deliver" {
						dd = append(dd, e["dg"].(string))
					}
				})
				refTrunc[c.desc] = [2][]string{pk, dd}
				rec.ev(M{"ev": "truncref", "name": c.desc, "P": orEmpty(pk), "D": orEmpty(dd)})
			}
			stream = t
		}
		// auto-detection domain: two packets, and no sync-like byte in the tail of the first frame (DESIGN.md 7)
		_, isTrunc := trunc[c.desc]
		ambig := false
		if c.auto && !isTrunc {
			ok := len(bs.pkts) >= 2
			if !ok {
				continue
			}
			for i := 188; i < c.size; i++ {
				if stream[i] == 0x47 {
					ambig = true // a 0x47 among the last bytes of the first frame: the size detection cannot tell it from the next sync byte
				}
			}
		}
		class := "ref"
		if c.auto && (c.reader == "plain" || c.reader == "chunk" || c.reader == "seekfail") {
			class = "plainauto" // (a reader whose Seek fails cannot be given the detection window back: read on like one that cannot seek)
		}
		if isTrunc {
			class = "trunc"
		}
		run := demuxRun{PSize: c.size}
		if c.auto {
			run.PSize = -1
		}
		rec.ev(M{"ev": "cfg", "r": r, "size": c.size, "auto": c.auto, "reader": c.reader, "sched": c.desc, "class": class, "ambig": ambig})
		{
			dmx := newDemuxer(makeReader(c.reader, stream, c.sched), run)
			for k := 0; k < bound; k++ {
				var p *astits.Packet
				var err error
				if pn := safeCall(func() { p, err = dmx.NextPacket() }); pn != nil {
					rec.ev(M{"ev": "perr", "run": r, "msg": fmt.Sprint(pn), "panic": true})
					break
				}
				if err != nil {
					if err == astits.ErrNoMorePackets {
						rec.ev(M{"ev": "peof", "run": r})
					} else {
						rec.ev(M{"ev": "perr", "run": r, "msg": err.Error(), "panic": false})
					}
					break
				}
				rec.ev(M{"ev": "packet", "run": r, "hdg": hdrDigest(p)})
			}
		}
		dmx := newDemuxer(makeReader(c.reader, stream, c.sched), run)
		drainData(dmx, bound, func() int { return 0 }, func(e M) {
			e["run"] = r
			rec.ev(e)
		})
	}
}

func orEmpty(s []string) []string {
	if s == nil {
		return []string{}
	}
	return s
}

func newBufio(r io.Reader) *bufio.Reader { return bufio.NewReaderSize(r, 4096) }

// ---------- C18 (reader half): the reader fails at a byte offset ----------

func runRFault(sc *streamScenario, rec *recorder, level int) {
	bs := buildStream(sc.Units, sc.Pkts, sc.PMTPIDs, sc.Seed, sc.Complete)
	rg := newRng(sc.Seed ^ 0x1818)
	n := len(bs.bytes)
	bound := len(bs.pkts) + len(bs.units)*4 + 10
	var offs []int
	if level > 1 || n <= 600 {
		for o := 0; o <= n; o++ {
			offs = append(offs, o)
		}
	} else {
		for o := 0; o <= 400 && o <= n; o++ {
			offs = append(offs, o)
		}
		for k := 0; k < 150; k++ {
			offs = append(offs, rg.intn(n+1))
		}
		offs = append(offs, n-1, n)
	}
	for _, auto := range []bool{false, true} {
		if auto && len(bs.pkts) < 2 {
			continue
		}
		run := demuxRun{}
		if auto {
			run.PSize = -1
		}
		for _, api := range []string{"data", "packet"} {
			for _, rkind := range []string{"seek", "plain", "bufio"} {
				seek := rkind == "seek"
				rec.ev(M{"ev": "reset", "t": fmt.Sprintf("%s/%v/%s/%s", sc.SID, auto, api, rkind), "kind": "rfault", "sid": sc.SID, "auto": auto, "api": api})
				// fault-free reference with the same kind of reader
				{
					var rr io.Reader = bytes.NewReader(bs.bytes)
					if rkind == "plain" {
						rr = plainReader{rr}
					} else if rkind == "bufio" {
						rr = newBufio(plainReader{rr})
					}
					dmx := newDemuxer(rr, run)
					for k := 0; k < bound; k++ {
						if api == "data" {
							d, err := dmx.NextData()
							if err == astits.ErrNoMorePackets {
								break
							}
							if err == nil {
								rec.ev(M{"ev": "clean", "dg": projDeliver(d)["dg"]})
							}
						} else {
							p, err := dmx.NextPacket()
							if err != nil {
								break
							}
							rec.ev(M{"ev": "clean", "dg": hdrDigest(p)})
						}
					}
				}
				for _, off := range offs {
					if !seek && level < 2 && rg.intn(4) != 0 && off != 0 {
						continue
					}
					for _, partial := range []bool{true, false} {
						var r io.Reader
						fr := &failReader{b: bs.bytes, failAt: off, partial: partial}
						r = fr
						if seek {
							fsr := &failSeekReader{failReader{b: bs.bytes, failAt: off, partial: partial}}
							fr = &fsr.failReader
							r = fsr
						} else if rkind == "bufio" {
							r = bufio.NewReaderSize(fr, []int{4096, 256, 193}[off%3]) // auto-detection peeks 193 bytes: smaller buffers cannot be used with it
							if off == 0 && auto {
								// ... except to be told why nothing at all could be read: a failure at offset 0 through a buffer too small for the
								// detection window is still the reader's failure, not the end of the input
								r = bufio.NewReaderSize(fr, 64)
							}
						}
						rec.ev(M{"ev": "rstart", "off": off, "partial": partial, "seek": seek, "rkind": rkind})
						dmx := newDemuxer(r, run)
						if off%4 == 1 {
							// the context given to NewDemuxer ends at the very moment the reader fails (a reader bound to it): the reader's
							// error is still what the pending call reports
							cctx, cancel := context.WithCancel(context.Background())
							defer cancel()
							fr.onFail = cancel
							dmx = newDemuxerCtx(cctx, r, run)
						}
						for k := 0; k < bound; k++ {
							before := fr.fired
							var dg string
							res := "ok"
							p := safeCall(func() {
								var err error
								if api == "data" {
									var d *astits.DemuxerData
									if d, err = dmx.NextData(); err == nil {
										dg = projDeliver(d)["dg"].(string)
									}
								} else {
									var pk *astits.Packet
									if pk, err = dmx.NextPacket(); err == nil {
										dg = hdrDigest(pk)
									}
								}
								if err != nil {
									res = errClass(err)
								}
							})
							if p != nil {
								res = "panic"
							}
							rfail := fr.fired > before
							rec.ev(M{"ev": "rcall", "api": api, "res": res, "rfail": rfail, "dg": dg, "off": off})
							if rfail || res == "nomore" || res == "panic" {
								break
							}
						}
					}
				}
			}
		}
	}
}
