module verif/harness

go 1.21

require github.com/asticode/go-astits v0.0.0

require github.com/asticode/go-astikit v0.30.0 // indirect

replace github.com/asticode/go-astits => /repo
