package main

import (
	"github.com/asticode/go-astits"
)

// Projections of library values into JSON-friendly records.  The same projection is applied to what
// was written and to what was delivered; only fields with meaning on the wire are projected (a field
// guarded by a flag is projected only when the flag is set).  Absent values are empty arrays.

func projCR(c *astits.ClockReference, withExt bool) []interface{} {
	if c == nil {
		return []interface{}{}
	}
	if withExt {
		return []interface{}{wide(c.Base), int(c.Extension)}
	}
	return []interface{}{wide(c.Base)}
}

func projAF(a *astits.PacketAdaptationField) M {
	m := M{"disc": false, "rai": false, "espi": false, "pcr": []interface{}{}, "opcr": []interface{}{},
		"splice": []interface{}{}, "priv": []interface{}{}, "ext": []interface{}{}}
	if a == nil || a.IsOneByteStuffing {
		return m
	}
	m["disc"] = a.DiscontinuityIndicator
	m["rai"] = a.RandomAccessIndicator
	m["espi"] = a.ElementaryStreamPriorityIndicator
	if a.HasPCR {
		m["pcr"] = projCR(a.PCR, true)
	}
	if a.HasOPCR {
		m["opcr"] = projCR(a.OPCR, true)
	}
	if a.HasSplicingCountdown {
		m["splice"] = []interface{}{a.SpliceCountdown}
	}
	if a.HasTransportPrivateData {
		m["priv"] = []interface{}{ints(a.TransportPrivateData)}
	}
	if a.HasAdaptationExtensionField && a.AdaptationExtensionField != nil {
		e := a.AdaptationExtensionField
		x := M{"ltw": []interface{}{}, "pw": []interface{}{}, "ss": []interface{}{}}
		if e.HasLegalTimeWindow {
			x["ltw"] = []interface{}{e.LegalTimeWindowIsValid, int(e.LegalTimeWindowOffset)}
		}
		if e.HasPiecewiseRate {
			x["pw"] = []interface{}{int(e.PiecewiseRate)}
		}
		if e.HasSeamlessSplice {
			x["ss"] = []interface{}{int(e.SpliceType), projCR(e.DTSNextAccessUnit, false)}
		}
		m["ext"] = []interface{}{x}
	}
	return m
}

func projTrick(t *astits.DSMTrickMode) []interface{} {
	if t == nil {
		return []interface{}{}
	}
	c := int(t.TrickModeControl)
	switch c {
	case astits.TrickModeControlFastForward, astits.TrickModeControlFastReverse:
		return []interface{}{c, int(t.FieldID), int(t.IntraSliceRefresh), int(t.FrequencyTruncation)}
	case astits.TrickModeControlFreezeFrame:
		return []interface{}{c, int(t.FieldID)}
	case astits.TrickModeControlSlowMotion, astits.TrickModeControlSlowReverse:
		return []interface{}{c, int(t.RepeatControl)}
	}
	return []interface{}{c}
}

func projPESHeader(h *astits.PESHeader) M {
	m := M{"sid": int(h.StreamID), "opt": []interface{}{}}
	o := h.OptionalHeader
	if o == nil || noOptionalHeader(h.StreamID) {
		return m
	}
	x := M{"scr": int(o.ScramblingControl), "prio": o.Priority, "align": o.DataAlignmentIndicator,
		"copy": o.IsCopyrighted, "orig": o.IsOriginal, "ind": int(o.PTSDTSIndicator),
		"pts": []interface{}{}, "dts": []interface{}{}, "escr": []interface{}{}, "esrate": []interface{}{},
		"trick": []interface{}{}, "aci": []interface{}{}, "crc": []interface{}{}, "ext": []interface{}{}}
	if o.PTSDTSIndicator == astits.PTSDTSIndicatorOnlyPTS || o.PTSDTSIndicator == astits.PTSDTSIndicatorBothPresent {
		x["pts"] = projCR(o.PTS, false)
	}
	if o.PTSDTSIndicator == astits.PTSDTSIndicatorBothPresent {
		x["dts"] = projCR(o.DTS, false)
	}
	if o.HasESCR {
		x["escr"] = projCR(o.ESCR, true)
	}
	if o.HasESRate {
		x["esrate"] = []interface{}{int(o.ESRate)}
	}
	if o.HasDSMTrickMode {
		x["trick"] = []interface{}{projTrick(o.DSMTrickMode)}
	}
	if o.HasAdditionalCopyInfo {
		x["aci"] = []interface{}{int(o.AdditionalCopyInfo)}
	}
	if o.HasCRC {
		x["crc"] = []interface{}{int(o.CRC)}
	}
	if o.HasExtension {
		e := M{"priv": []interface{}{}, "pack": []interface{}{}, "seq": []interface{}{}, "pstd": []interface{}{}, "ext2": []interface{}{}}
		if o.HasPrivateData {
			e["priv"] = []interface{}{ints(o.PrivateData)}
		}
		if o.HasPackHeaderField {
			e["pack"] = []interface{}{int(o.PackField)}
		}
		if o.HasProgramPacketSequenceCounter {
			e["seq"] = []interface{}{int(o.PacketSequenceCounter), int(o.MPEG1OrMPEG2ID), int(o.OriginalStuffingLength)}
		}
		if o.HasPSTDBuffer {
			e["pstd"] = []interface{}{int(o.PSTDBufferScale), int(o.PSTDBufferSize)}
		}
		if o.HasExtension2 {
			e["ext2"] = []interface{}{ints(o.Extension2Data)}
		}
		x["ext"] = []interface{}{e}
	}
	m["opt"] = []interface{}{x}
	return m
}

// ---------- builders from abstract classes ----------

func cr33(r *rng) int64 { return int64(r.u64() & 0x1ffffffff) }

// buildPESHeader concretises a header class
func buildPESHeader(class string, sid int, r *rng) *astits.PESHeader {
	h := &astits.PESHeader{StreamID: uint8(sid)}
	switch class {
	case "none":
		if sid == 0 {
			h.StreamID = astits.StreamIDPrivateStream2
		}
		return h
	case "pts":
		h.OptionalHeader = &astits.PESOptionalHeader{MarkerBits: 2, PTSDTSIndicator: astits.PTSDTSIndicatorOnlyPTS,
			PTS: &astits.ClockReference{Base: cr33(r)}, DataAlignmentIndicator: r.boolean()}
	case "ptsdts":
		h.OptionalHeader = &astits.PESOptionalHeader{MarkerBits: 2, PTSDTSIndicator: astits.PTSDTSIndicatorBothPresent,
			PTS: &astits.ClockReference{Base: cr33(r)}, DTS: &astits.ClockReference{Base: cr33(r)}, Priority: r.boolean()}
		if r.intn(4) == 0 { // a decoding time equal to the presentation time is still a decoding time: both are written
			h.OptionalHeader.DTS = &astits.ClockReference{Base: h.OptionalHeader.PTS.Base}
		}
	case "bare":
		h.OptionalHeader = &astits.PESOptionalHeader{MarkerBits: 2, IsOriginal: r.boolean(), IsCopyrighted: r.boolean()}
	case "full":
		h.OptionalHeader = &astits.PESOptionalHeader{MarkerBits: 2, PTSDTSIndicator: astits.PTSDTSIndicatorBothPresent,
			PTS: &astits.ClockReference{Base: cr33(r)}, DTS: &astits.ClockReference{Base: cr33(r)},
			ScramblingControl: uint8(r.intn(4)), Priority: r.boolean(), DataAlignmentIndicator: r.boolean(),
			IsCopyrighted: r.boolean(), IsOriginal: r.boolean(),
			HasESCR: true, ESCR: &astits.ClockReference{Base: cr33(r), Extension: int64(r.intn(512))},
			HasESRate: true, ESRate: uint32(r.intn(1 << 22)),
			HasDSMTrickMode: true, DSMTrickMode: buildTrick(r),
			HasAdditionalCopyInfo: true, AdditionalCopyInfo: uint8(r.intn(128)),
			HasExtension: true, HasPrivateData: true, PrivateData: r.bytes(16),
			HasProgramPacketSequenceCounter: true, PacketSequenceCounter: uint8(r.intn(128)), MPEG1OrMPEG2ID: uint8(r.intn(2)), OriginalStuffingLength: uint8(r.intn(64)),
			HasPSTDBuffer: true, PSTDBufferScale: uint8(r.intn(2)), PSTDBufferSize: uint16(r.intn(1 << 13)),
			HasExtension2: true, Extension2Data: r.bytes(3), Extension2Length: 3}
	default:
		fatal("unknown PES header class %q", class)
	}
	return h
}

func buildTrick(r *rng) *astits.DSMTrickMode {
	t := &astits.DSMTrickMode{TrickModeControl: uint8(r.intn(8))}
	switch t.TrickModeControl {
	case astits.TrickModeControlFastForward, astits.TrickModeControlFastReverse:
		t.FieldID, t.IntraSliceRefresh, t.FrequencyTruncation = uint8(r.intn(4)), uint8(r.intn(2)), uint8(r.intn(4))
	case astits.TrickModeControlFreezeFrame:
		t.FieldID = uint8(r.intn(4))
	case astits.TrickModeControlSlowMotion, astits.TrickModeControlSlowReverse:
		t.RepeatControl = uint8(r.intn(32))
	}
	return t
}

// pesHeaderLen is the on-wire size of the PES header of a class (independent arithmetic from ISO 13818-1 2.4.3.6)
func pesHeaderLen(class string) int {
	switch class {
	case "none":
		return 6
	case "bare":
		return 9
	case "pts":
		return 14
	case "ptsdts":
		return 19
	case "full":
		return 9 + 10 + 6 + 3 + 1 + 1 + 1 + 16 + 2 + 2 + 4
	}
	fatal("unknown PES header class %q", class)
	return 0
}

// buildAF concretises an adaptation-field class ("none" gives nil)
func buildAF(class string, r *rng) *astits.PacketAdaptationField {
	pcr := func() *astits.ClockReference {
		return &astits.ClockReference{Base: cr33(r), Extension: int64(r.intn(300))}
	}
	// values left behind cleared flags (a caller re-using one struct and toggling the flags, a re-multiplexer dropping a part of a parsed
	// field): only what is flagged is written and counted
	stale := func(a *astits.PacketAdaptationField) *astits.PacketAdaptationField {
		if r.intn(3) == 0 {
			a.OPCR = pcr()
		}
		if r.intn(3) == 0 {
			a.TransportPrivateData, a.TransportPrivateDataLength = r.bytes(5), 5
		}
		if r.intn(3) == 0 {
			a.AdaptationExtensionField = &astits.PacketAdaptationExtensionField{HasLegalTimeWindow: true, LegalTimeWindowOffset: 77}
		}
		if r.intn(3) == 0 {
			a.SpliceCountdown = 9
		}
		if !a.HasPCR && r.intn(3) == 0 {
			a.PCR = pcr()
		}
		return a
	}
	switch class {
	case "none":
		return nil
	case "rai":
		return stale(&astits.PacketAdaptationField{RandomAccessIndicator: true})
	case "pcr":
		return stale(&astits.PacketAdaptationField{HasPCR: true, PCR: pcr()})
	case "raipcr":
		return stale(&astits.PacketAdaptationField{RandomAccessIndicator: true, HasPCR: true, PCR: pcr()})
	case "priv10":
		return &astits.PacketAdaptationField{HasTransportPrivateData: true, TransportPrivateData: r.bytes(10), TransportPrivateDataLength: 10}
	case "rich":
		return &astits.PacketAdaptationField{RandomAccessIndicator: r.boolean(), ElementaryStreamPriorityIndicator: r.boolean(),
			HasPCR: true, PCR: pcr(), HasOPCR: true, OPCR: pcr(), HasSplicingCountdown: true, SpliceCountdown: r.intn(256) - 128,
			HasTransportPrivateData: true, TransportPrivateData: r.bytes(5), TransportPrivateDataLength: 5,
			HasAdaptationExtensionField: true, AdaptationExtensionField: &astits.PacketAdaptationExtensionField{
				Length:             r.pick(0, 1, 3, 5, 11, 40), // the redundant length field as a parser left it for another set of parts: the writer computes
				HasLegalTimeWindow: true, LegalTimeWindowIsValid: r.boolean(), LegalTimeWindowOffset: uint16(r.intn(1 << 15)),
				HasPiecewiseRate: true, PiecewiseRate: uint32(r.intn(1 << 22)),
				HasSeamlessSplice: true, SpliceType: uint8(r.intn(16)), DTSNextAccessUnit: &astits.ClockReference{Base: cr33(r)}}}
	case "big":
		return &astits.PacketAdaptationField{HasTransportPrivateData: true, TransportPrivateData: r.bytes(180), TransportPrivateDataLength: 180}
	case "discpcr": // the unit announces a discontinuity (a new time base): whatever was written before it is delivered all the same
		return &astits.PacketAdaptationField{DiscontinuityIndicator: true, HasPCR: true, PCR: pcr()}
	case "stuffed": // as parsed from a PCR-only packet of another stream (what a re-multiplexer hands over): the stuffing is the muxer's to compute
		return &astits.PacketAdaptationField{HasPCR: true, PCR: pcr(), StuffingLength: r.pick(176, 1, 20, 100)}
	case "onebyte": // as parsed from a packet whose adaptation_field_length is 0
		return &astits.PacketAdaptationField{IsOneByteStuffing: true, Length: 0}
	case "huge": // an adaptation field that alone does not fit in a packet: the call must be rejected without a partial packet
		return &astits.PacketAdaptationField{HasTransportPrivateData: true, TransportPrivateData: r.bytes(182 + r.intn(20)), TransportPrivateDataLength: 190}
	case "huge8": // ... around and beyond what an 8-bit length can hold
		n := r.pick(252, 253, 254, 255, 256, 300, 437, 438, 600)
		return &astits.PacketAdaptationField{RandomAccessIndicator: r.boolean(), HasTransportPrivateData: true, TransportPrivateData: r.bytes(n), TransportPrivateDataLength: n}
	case "bigrai": // a random access point whose adaptation field leaves no room for the PES header
		return &astits.PacketAdaptationField{RandomAccessIndicator: true, HasPCR: true, PCR: pcr(), HasTransportPrivateData: true, TransportPrivateData: r.bytes(170), TransportPrivateDataLength: 170}
	}
	fatal("unknown AF class %q", class)
	return nil
}

// afTotalLen is the on-wire size of the adaptation field of a class including its length byte, without stuffing
func afTotalLen(class string) int {
	switch class {
	case "none":
		return 0
	case "rai":
		return 2
	case "pcr", "raipcr":
		return 8
	case "priv10":
		return 2 + 1 + 10
	case "rich":
		return 2 + 6 + 6 + 1 + 1 + 5 + 1 + 1 + 2 + 3 + 5
	case "big":
		return 2 + 1 + 180
	case "bigrai":
		return 2 + 6 + 1 + 170
	case "stuffed", "discpcr":
		return 8
	case "onebyte":
		return 2
	case "huge", "huge8":
		return 185 // more than a packet holds (the exact size is drawn when the field is built)
	}
	fatal("unknown AF class %q", class)
	return 0
}
