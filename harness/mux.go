package main

import (
	"bytes"
	"context"
	"encoding/json"
	"errors"
	"fmt"
	"io"

	"github.com/asticode/go-astits"
)

// ---------- scenario ----------

type muxOp struct {
	Op   string `json:"op"`             // add remove setpcr tables data packet
	PID  int    `json:"pid"`            // >0 explicit; 0 auto (add); -k: the k-th automatically assigned PID
	ST   int    `json:"st,omitempty"`   // stream type (add)
	DK   string `json:"dk,omitempty"`   // descriptor class (add): none si ud<n> both
	Len  int    `json:"len,omitempty"`  // payload length (data)
	Hdr  string `json:"hdr,omitempty"`  // PES header class (data)
	AF   string `json:"af,omitempty"`   // adaptation field class (data)
	SID  int    `json:"sid,omitempty"`  // stream id (data), 0 = let the muxer choose
	Kind string `json:"kind,omitempty"` // packet kind (packet)
	Fill string `json:"fill,omitempty"` // payload content (data): "" random; "sc0".."sc3": 00 00 01 e0 repeated, rotated by 0..3 bytes
	Pred *M     `json:"pred,omitempty"` // what the system model predicts (drift reporting only)
}

type muxFault struct {
	At   int    `json:"at"`            // index of the failing Write call (0-based, over the whole scenario)
	Mode string `json:"mode"`          // perm | once | oncefull | permfull | pattwice | cancel
	At2  int    `json:"at2,omitempty"` // pattwice: At and At2 are ordinals (1-based) among the Write calls that carry a PAT packet
}

type muxScenario struct {
	SID       string    `json:"sid"`
	Kind      string    `json:"kind"`
	Period    int       `json:"period"`
	Seed      uint64    `json:"seed"`
	Ops       []muxOp   `json:"ops"`
	Fault     *muxFault `json:"fault,omitempty"`
	Demux     bool      `json:"demux,omitempty"`
	SharedHdr bool      `json:"sharedhdr,omitempty"` // one PESHeader object (stream id 0 = the muxer's choice) is handed to the WriteData calls of every stream
	Reuse     bool      `json:"reuse,omitempty"`     // the caller keeps one PacketAdaptationField object per class and passes it to every WriteData
	Shadow    bool      `json:"shadow,omitempty"`    // a second, unrelated Muxer lives in the same process and is used between the calls
}

// ---------- recording / fault-injecting writer ----------

var errInjected = errors.New("verif: injected I/O failure")

type recWriter struct {
	buf     bytes.Buffer
	wcalls  int
	fault   *muxFault
	fired   int // number of times the fault fired
	firedAt []int
	pats    int    // Write calls that carried a PAT packet so far
	cancel  func() // mode "cancel": cancels the Muxer's context
}

func (w *recWriter) Write(p []byte) (int, error) {
	idx := w.wcalls
	w.wcalls++
	if w.fault != nil && ((w.fault.Mode == "once" && idx == w.fault.At) || (w.fault.Mode == "perm" && idx >= w.fault.At)) {
		w.fired++
		w.firedAt = append(w.firedAt, idx)
		return 0, errInjected
	}
	// a writer that takes the bytes and reports the failure with the full count (a tee, a sink with a deferred error): io.Writer allows it
	if w.fault != nil && ((w.fault.Mode == "oncefull" && idx == w.fault.At) || (w.fault.Mode == "permfull" && idx >= w.fault.At)) {
		w.fired++
		w.firedAt = append(w.firedAt, idx)
		w.buf.Write(p)
		return len(p), errInjected
	}
	// the same kind of failure twice in one history, each time on a Write carrying a PAT packet (the PMT behind it is then never written)
	if w.fault != nil && w.fault.Mode == "pattwice" && len(p) == 188 && p[0] == 0x47 && p[1]&0x1f == 0 && p[2] == 0 {
		w.pats++
		if w.pats == w.fault.At || w.pats == w.fault.At2 {
			w.fired++
			w.firedAt = append(w.firedAt, idx)
			w.buf.Write(p)
			return len(p), errInjected
		}
	}
	// a writer that never fails but during whose Write the context given to NewMuxer is cancelled (the caller gives up while a call is
	// under way): the call goes on or stops between packets, it leaves no partial packet
	if w.fault != nil && w.fault.Mode == "cancel" && idx == w.fault.At && w.cancel != nil {
		w.cancel()
	}
	return w.buf.Write(p)
}

func errClass(err error) string {
	switch {
	case err == nil:
		return "nil"
	case errors.Is(err, errInjected):
		return "cause"
	case errors.Is(err, astits.ErrPIDNotFound):
		return "pidnotfound"
	case errors.Is(err, astits.ErrPIDAlreadyExists):
		return "pidexists"
	case errors.Is(err, astits.ErrPIDInvalid):
		return "pidinvalid"
	case errors.Is(err, astits.ErrPCRPIDInvalid):
		return "pcrinvalid"
	case errors.Is(err, astits.ErrNoMorePackets):
		return "nomore"
	}
	return "other"
}

func descBytes(dk string, r *rng) ([]*astits.Descriptor, []int) {
	var ds []*astits.Descriptor
	var flat []int
	addUD := func(n int) {
		tag := uint8(0x80 + r.intn(0x7f))
		data := r.bytes(n)
		// the struct's redundant Length as a parser of another stream may have left it (right, 0, too small, too large): the PMT's lengths
		// follow the bytes written
		ds = append(ds, &astits.Descriptor{Tag: tag, Length: uint8(r.pick(n, n, 0, n/2, n+3, 255)), UserDefined: data})
		flat = append(flat, int(tag), n)
		flat = append(flat, ints(data)...)
	}
	addSI := func() {
		ct := uint8(r.intn(256))
		ds = append(ds, &astits.Descriptor{Tag: astits.DescriptorTagStreamIdentifier, Length: uint8(r.pick(1, 1, 0, 2, 9)), StreamIdentifier: &astits.DescriptorStreamIdentifier{ComponentTag: ct}})
		flat = append(flat, astits.DescriptorTagStreamIdentifier, 1, int(ct))
	}
	switch {
	case dk == "" || dk == "none":
	case dk == "si":
		addSI()
	case dk == "both":
		addSI()
		addUD(4)
	case len(dk) > 2 && dk[:2] == "ud":
		n := 0
		fmt.Sscanf(dk[2:], "%d", &n)
		addUD(n)
	default:
		fatal("unknown descriptor class %q", dk)
	}
	if flat == nil {
		flat = []int{}
	}
	return ds, flat
}

func buildUserPacket(kind string, r *rng) *astits.Packet {
	switch kind {
	case "null":
		return &astits.Packet{Header: astits.PacketHeader{PID: astits.PIDNull, HasPayload: true}, Payload: bytes.Repeat([]byte{0xff}, 184)}
	case "short":
		return &astits.Packet{Header: astits.PacketHeader{PID: 0x1ffe, HasPayload: true, ContinuityCounter: uint8(r.intn(16))}, Payload: r.bytes(10)}
	case "pcr":
		return &astits.Packet{Header: astits.PacketHeader{PID: 0x1ffe, HasAdaptationField: true, ContinuityCounter: uint8(r.intn(16))},
			AdaptationField: &astits.PacketAdaptationField{HasPCR: true, PCR: &astits.ClockReference{Base: cr33(r), Extension: int64(r.intn(300))}, StuffingLength: 176}}
	case "richaf": // every optional part of the adaptation field and of its extension, then payload
		a := buildAF("rich", r)
		return &astits.Packet{Header: astits.PacketHeader{PID: 0x1ffe, HasPayload: true, HasAdaptationField: true, ContinuityCounter: uint8(r.intn(16))},
			AdaptationField: a, Payload: r.bytes(184 - afTotalLen("rich"))}
	case "privlen": // the redundant length field of the private data disagrees with the data: the bytes follow the data
		d := r.bytes(r.pick(1, 5, 20))
		return &astits.Packet{Header: astits.PacketHeader{PID: 0x1ffe, HasPayload: true, HasAdaptationField: true, ContinuityCounter: uint8(r.intn(16))},
			AdaptationField: &astits.PacketAdaptationField{HasTransportPrivateData: true, TransportPrivateData: d, TransportPrivateDataLength: r.pick(0, 0, 1, 30)}, Payload: r.bytes(100)}
	case "hugeaf": // adaptation fields whose size does not fit the 8-bit length byte, with payload / alone / as stuffing
		return &astits.Packet{Header: astits.PacketHeader{PID: 0x1ffe, HasPayload: true, HasAdaptationField: true, ContinuityCounter: uint8(r.intn(16))},
			AdaptationField: buildAF("huge8", r), Payload: r.bytes(r.pick(0, 1, 10, 100))}
	case "hugeafonly":
		return &astits.Packet{Header: astits.PacketHeader{PID: 0x1ffe, HasAdaptationField: true, ContinuityCounter: uint8(r.intn(16))}, AdaptationField: buildAF(r.pickS("huge", "huge8"), r)}
	case "negstuff": // a stuffing length below zero (what the parser reports for an adaptation_field_length shorter than its flagged content)
		return &astits.Packet{Header: astits.PacketHeader{PID: 0x1ffe, HasPayload: true, HasAdaptationField: true, ContinuityCounter: uint8(r.intn(16))},
			AdaptationField: &astits.PacketAdaptationField{HasPCR: true, PCR: &astits.ClockReference{Base: cr33(r)}, StuffingLength: -r.pick(1, 6, 7, 8, 100)}, Payload: r.bytes(r.pick(1, 100, 176, 177))}
	case "parsedext", "parsedextonly":
		// a packet as the Demuxer returns it for an adaptation field extension with reserved bytes behind its known parts (ISO 13818-1
		// table 2-6 allows them), handed to WritePacket unchanged: with payload, and adaptation-only
		k := r.pick(1, 2, 5)
		ext := []byte{byte(1 + 2 + k), 0x80 | 0x1f, byte(0x80 | r.intn(128)), byte(r.intn(256))} // length, ltw flag + reserved bits, ltw
		ext = append(ext, r.bytes(k)...)
		af := append([]byte{0x01}, ext...) // flags: extension only
		b := make([]byte, 188)
		b[0], b[1], b[2] = 0x47, 0x1f, 0xfe
		if kind == "parsedext" {
			n := 20 + r.intn(100) // payload bytes
			afl := 183 - n
			b[3] = 0x30 | byte(r.intn(16))
			b[4] = byte(afl)
			copy(b[5:], af)
			for j := 5 + len(af); j < 5+afl; j++ {
				b[j] = 0xff
			}
			copy(b[5+afl:], r.bytes(n))
		} else {
			b[3] = 0x20 | byte(r.intn(16))
			b[4] = 183
			copy(b[5:], af)
			for j := 5 + len(af); j < 188; j++ {
				b[j] = 0xff
			}
		}
		p, err := astits.NewDemuxer(context.Background(), bytes.NewReader(b), astits.DemuxerOptPacketSize(188)).NextPacket()
		if err != nil {
			fatal("parsedext: %v", err)
		}
		return p
	case "nilaf": // the header announces an adaptation field, none is given
		return &astits.Packet{Header: astits.PacketHeader{PID: 0x1ffe, HasPayload: true, HasAdaptationField: true, ContinuityCounter: uint8(r.intn(16))}, Payload: r.bytes(100)}
	case "hugestuff":
		return &astits.Packet{Header: astits.PacketHeader{PID: 0x1ffe, HasPayload: true, HasAdaptationField: true, ContinuityCounter: uint8(r.intn(16))},
			AdaptationField: &astits.PacketAdaptationField{StuffingLength: r.pick(183, 200, 253, 254, 255, 256, 400, 437)}, Payload: r.bytes(r.pick(1, 10))}
	case "toobig":
		return &astits.Packet{Header: astits.PacketHeader{PID: 0x1ffe, HasPayload: true, ContinuityCounter: uint8(r.intn(16))}, Payload: r.bytes(185)}
	case "nopltoobig": // no payload flagged, yet an oversize Payload slice: must be rejected without a partial write like any other
		return &astits.Packet{Header: astits.PacketHeader{PID: 0x1ffe, HasAdaptationField: r.boolean(), ContinuityCounter: uint8(r.intn(16))},
			AdaptationField: &astits.PacketAdaptationField{HasPCR: true, PCR: &astits.ClockReference{Base: cr33(r)}}, Payload: r.bytes(190)}
	case "toobigaf":
		return &astits.Packet{Header: astits.PacketHeader{PID: 0x1ffe, HasPayload: true, HasAdaptationField: true, ContinuityCounter: uint8(r.intn(16))},
			AdaptationField: &astits.PacketAdaptationField{HasPCR: true, PCR: &astits.ClockReference{Base: cr33(r)}}, Payload: r.bytes(180)}
	}
	fatal("unknown packet kind %q", kind)
	return nil
}

// runMux drives the real Muxer through one scenario and records the trace
func runMux(sc *muxScenario, rec *recorder) {
	runMuxOn(sc, rec, &recWriter{fault: sc.Fault})
}

func runMuxOn(sc *muxScenario, rec *recorder, w *recWriter) {
	period := sc.Period
	if period <= 0 {
		period = 40
	}
	mctx, mcancel := context.WithCancel(context.Background())
	defer mcancel()
	w.cancel = mcancel
	m := astits.NewMuxer(mctx, w, astits.MuxerOptTablesRetransmitPeriod(period))
	r := newRng(sc.Seed ^ hashStr(sc.SID))
	fmode, fat := "none", -1
	if sc.Fault != nil {
		fmode, fat = sc.Fault.Mode, sc.Fault.At
	}
	rec.ev(M{"ev": "reset", "t": sc.SID, "kind": "mux", "period": period, "fmode": fmode, "fat": fat})
	afCache := map[string]*astits.PacketAdaptationField{}
	hdrCache := map[string]*astits.PESHeader{}
	stOf := map[int]int{} // stream type of every PID added
	var autoPIDs []int
	resolve := func(p int) int {
		if p < 0 {
			k := -p
			if k <= len(autoPIDs) {
				return autoPIDs[k-1]
			}
			return 0x1ffd // never added
		}
		return p
	}
	// the unrelated Muxer: other streams, other stream types, its own writer and random source; nothing it does may show in m's output
	var shadow *astits.Muxer
	var shadowPIDs []uint16
	rs := newRng(sc.Seed ^ 0x5badc0de)
	if sc.Shadow {
		shadow = astits.NewMuxer(context.Background(), &recWriter{}, astits.MuxerOptTablesRetransmitPeriod(1+rs.intn(3)))
	}
	shadowStep := func(op string) {
		if shadow == nil {
			return
		}
		safeCall(func() {
			switch {
			case op == "add" || len(shadowPIDs) == 0:
				es := astits.PMTElementaryStream{ElementaryPID: uint16(rs.pick(0, 0, 0x300+rs.intn(8))), StreamType: astits.StreamType(rs.pick(0x02, 0x03, 0x06, 0x81, 0x24)),
					ElementaryStreamDescriptors: []*astits.Descriptor{{Tag: 0x90, Length: 3, UserDefined: rs.bytes(3)}}}
				if shadow.AddElementaryStream(es) == nil {
					st := astits.VerifMuxerState(shadow)
					shadowPIDs = append(shadowPIDs, st.StreamPIDs[len(st.StreamPIDs)-1])
					shadow.SetPCRPID(shadowPIDs[0])
				}
			case op == "remove" && len(shadowPIDs) > 1:
				shadow.RemoveElementaryStream(shadowPIDs[len(shadowPIDs)-1])
				shadowPIDs = shadowPIDs[:len(shadowPIDs)-1]
			case op == "tables":
				shadow.WriteTables()
			default:
				shadow.WriteData(&astits.MuxerData{PID: shadowPIDs[rs.intn(len(shadowPIDs))], AdaptationField: buildAF(rs.pickS("none", "rai", "pcr"), rs),
					PES: &astits.PESData{Header: buildPESHeader("pts", 0, rs), Data: rs.bytes(rs.pick(1, 100, 400))}})
			}
		})
	}
	for oi := range sc.Ops {
		op := &sc.Ops[oi]
		shadowStep(op.Op)
		before := w.buf.Len()
		wcBefore := w.wcalls
		firedBefore := w.fired
		e := M{"ev": "call", "op": op.Op, "i": oi, "pid": resolve(op.PID) & 0x1fff} // the PID as it appears on the wire
		var n int
		var err error
		var panicked interface{}
		func() {
			defer func() { panicked = recover() }()
			switch op.Op {
			case "add":
				ds, flat := descBytes(op.DK, r)
				err = m.AddElementaryStream(astits.PMTElementaryStream{ElementaryPID: uint16(op.PID), StreamType: astits.StreamType(op.ST), ElementaryStreamDescriptors: ds})
				e["st"] = op.ST
				e["desc"] = flat
				e["pid"] = op.PID & 0x1fff
				apid := op.PID
				if err == nil {
					s := astits.VerifMuxerState(m)
					apid = int(s.StreamPIDs[len(s.StreamPIDs)-1])
					stOf[apid] = op.ST
					if op.PID == 0 {
						autoPIDs = append(autoPIDs, apid)
					}
				}
				e["apid"] = apid & 0x1fff
			case "remove":
				err = m.RemoveElementaryStream(uint16(resolve(op.PID)))
			case "setpcr":
				m.SetPCRPID(uint16(resolve(op.PID)))
			case "tables":
				n, err = m.WriteTables()
			case "data":
				hdr := buildPESHeader(op.Hdr, op.SID, r)
				if sc.SharedHdr && op.SID == 0 && op.Hdr != "none" {
					// one header object, stream id left to the muxer, handed to the calls of every stream: the id the muxer picks for
					// one stream must not stick to the object
					if c, ok := hdrCache[op.Hdr]; ok {
						// the same header object as before, carrying this unit's optional header (a caller that keeps one PESHeader
						// and hangs a fresh PESOptionalHeader on it for every unit)
						c.OptionalHeader = hdr.OptionalHeader
						hdr = c
					} else {
						hdrCache[op.Hdr] = hdr
					}
				}
				sidBefore := hdr.StreamID
				if op.SID == 0 && op.Hdr != "none" {
					sidBefore = 0 // what the caller asked for, whatever an earlier call left in a shared object
				}
				af := buildAF(op.AF, r)
				if sc.Reuse && af != nil {
					if c, ok := afCache[op.AF]; ok {
						af = c // the same object as in the previous call of this class (the library resets what it changed)
					} else {
						afCache[op.AF] = af
					}
				}
				payload := r.bytes(op.Len)
				if len(op.Fill) == 3 && op.Fill[:2] == "sc" {
					// elementary stream data that looks like PES start codes everywhere: for one of the four rotations a continuation packet's
					// payload begins with 00 00 01 e0 (payload content is opaque to a demultiplexer)
					pat := []byte{0, 0, 1, 0xe0}
					rot := int(op.Fill[2] - '0')
					for j := range payload {
						payload[j] = pat[(j+rot)%4]
					}
				}
				keep := append([]byte(nil), payload...)
				d := &astits.MuxerData{PID: uint16(resolve(op.PID)), AdaptationField: af, PES: &astits.PESData{Header: hdr, Data: payload}}
				afp := projAF(af) // before the call: the muxer adds stuffing to this struct
				n, err = m.WriteData(d)
				e["len"] = op.Len
				e["dg"] = digest(keep)
				e["intact"] = bytes.Equal(keep, payload)
				want := *hdr
				want.StreamID = sidBefore
				if st, ok := stOf[resolve(op.PID)]; ok && sidBefore == 0 {
					want.StreamID = astits.StreamType(st).ToPESStreamID() // the muxer's choice depends on the stream's type only
				}
				e["hdr"] = projPESHeader(&want)
				e["hclass"] = op.Hdr
				e["af"] = afp
				e["hasaf"] = af != nil
				e["rai"] = af != nil && af.RandomAccessIndicator
				e["afbig"] = 184-afTotalLen(op.AF) < pesHeaderLen(op.Hdr)
			case "packet":
				n, err = m.WritePacket(buildUserPacket(op.Kind, r))
				e["kind"] = op.Kind
			default:
				fatal("unknown mux op %q", op.Op)
			}
		}()
		delta := w.buf.Len() - before
		e["n"] = n
		e["err"] = errClass(err)
		if panicked != nil {
			e["err"] = "panic"
			e["panic"] = fmt.Sprint(panicked)
		}
		e["delta"] = delta
		e["npk"] = delta / 188
		e["part"] = delta % 188
		e["wcalls"] = w.wcalls - wcBefore
		e["wfail"] = w.fired > firedBefore
		e["wfull"] = w.fault != nil && (w.fault.Mode == "oncefull" || w.fault.Mode == "permfull" || w.fault.Mode == "pattwice") // the failing Write took all it was given
		if op.Pred != nil {
			e["pred"] = *op.Pred
		}
		rec.ev(e)
		out := w.buf.Bytes()[before:]
		for k := 0; k+188 <= len(out); k += 188 {
			rec.ev(M{"ev": "pkt", "b": ints(out[k : k+188])})
		}
	}
	if sc.Demux {
		demuxAfterMux(w.buf.Bytes(), rec)
	}
}

// demuxAfterMux feeds the muxer's bytes to a real Demuxer and records what it delivers (C01)
func demuxAfterMux(stream []byte, rec *recorder) {
	dmx := astits.NewDemuxer(context.Background(), bytes.NewReader(stream), astits.DemuxerOptPacketSize(188))
	for guard := 0; guard < len(stream)/188+10; guard++ {
		d, err := dmx.NextData()
		if err != nil {
			if err == astits.ErrNoMorePackets {
				rec.ev(M{"ev": "eof"})
				return
			}
			rec.ev(M{"ev": "demuxerr", "msg": err.Error()})
			continue
		}
		rec.ev(projDeliver(d))
	}
	rec.ev(M{"ev": "hang"})
}

func projDescSimple(ds []*astits.Descriptor) []int {
	flat := []int{}
	for _, d := range ds {
		switch {
		case d.Tag >= 0x80 && d.Tag <= 0xfe:
			flat = append(flat, int(d.Tag), len(d.UserDefined))
			flat = append(flat, ints(d.UserDefined)...)
		case d.Tag == astits.DescriptorTagStreamIdentifier && d.StreamIdentifier != nil:
			flat = append(flat, int(d.Tag), 1, int(d.StreamIdentifier.ComponentTag))
		default:
			flat = append(flat, int(d.Tag), -1)
		}
	}
	return flat
}

// projDeliver projects one NextData result
func projDeliver(d *astits.DemuxerData) M {
	e := M{"ev": "deliver", "pid": int(d.PID)}
	js, _ := json.Marshal(d)
	e["dg"] = digest(js)
	c := *d
	c.FirstPacket = nil
	cjs, _ := json.Marshal(&c)
	e["cdg"] = digest(cjs) // content only: the unit itself, without the first packet's header / adaptation field
	fp := d.FirstPacket
	if fp != nil {
		e["fp_pusi"] = fp.Header.PayloadUnitStartIndicator
		e["fp_cc"] = int(fp.Header.ContinuityCounter)
		e["af"] = projAF(fp.AdaptationField)
	}
	switch {
	case d.PES != nil:
		e["kind"] = "pes"
		e["len"] = len(d.PES.Data)
		e["pdg"] = digest(d.PES.Data)
		e["hdr"] = projPESHeader(d.PES.Header)
		e["plen"] = int(d.PES.Header.PacketLength)
	case d.PAT != nil:
		e["kind"] = "pat"
		ps := []interface{}{}
		for _, p := range d.PAT.Programs {
			ps = append(ps, M{"pn": int(p.ProgramNumber), "pid": int(p.ProgramMapID)})
		}
		e["progs"] = ps
		e["tsid"] = int(d.PAT.TransportStreamID)
	case d.PMT != nil:
		e["kind"] = "pmt"
		ss := []interface{}{}
		for _, s := range d.PMT.ElementaryStreams {
			ss = append(ss, M{"pid": int(s.ElementaryPID), "st": int(s.StreamType), "desc": projDescSimple(s.ElementaryStreamDescriptors)})
		}
		e["streams"] = ss
		e["pcr"] = int(d.PMT.PCRPID)
		e["pn"] = int(d.PMT.ProgramNumber)
		e["pinfo"] = projDescSimple(d.PMT.ProgramDescriptors)
	case d.SDT != nil:
		e["kind"] = "sdt"
	case d.NIT != nil:
		e["kind"] = "nit"
	case d.EIT != nil:
		e["kind"] = "eit"
	case d.TOT != nil:
		e["kind"] = "tot"
	default:
		e["kind"] = "empty"
	}
	return e
}

var _ = io.EOF
