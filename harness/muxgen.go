package main

import "fmt"

var muxHdrClasses = []string{"none", "bare", "pts", "ptsdts", "full"}
var muxAFClasses = []string{"none", "none", "rai", "pcr", "raipcr", "priv10", "rich", "stuffed", "onebyte", "discpcr"}
var muxStreamTypes = []int{27, 15, 0x81, 6, 3, 2, 0x24, 0xd1}

func boundaryLen(r *rng, hdr, af string, big bool) int {
	c1 := 184 - afTotalLen(af) - pesHeaderLen(hdr)
	if c1 < 0 {
		c1 = 184 - pesHeaderLen(hdr)
	}
	k := r.intn(6)
	cands := []int{1, 2, c1 - 1, c1, c1 + 1, c1 + 2, c1 + 183, c1 + 184, c1 + 185, c1 + 184*k - 1, c1 + 184*k, c1 + 184*k + 1, c1 + 184*k + 2,
		r.rangeInt(1, 400), r.rangeInt(1, 3000)}
	if big {
		h := pesHeaderLen(hdr) - 6
		cands = append(cands, 65535-h-1, 65535-h, 65535-h+1, 65536, 70000)
	}
	l := cands[r.intn(len(cands))]
	if l < 1 {
		l = 1
	}
	return l
}

// genMux produces n random muxer histories (seeded); long histories cross the 15->0 and 31->0 wraps
func genMux(seed uint64, n int, maxOps int, demux bool, emit func(interface{})) {
	r := newRng(seed)
	for s := 0; s < n; s++ {
		sc := muxScenario{SID: fmt.Sprintf("mr-%d-%d", seed, s), Kind: "mux", Seed: r.u64() >> 1, Demux: demux}
		sc.Period = r.pick(1, 2, 3, 5, 40, r.rangeInt(1, 50))
		sc.Reuse = s%2 == 1
		sc.Shadow = s%3 == 2
		if s%12 == 5 {
			genMuxSweep(r, &sc, demux)
			emit(sc)
			continue
		}
		if s%12 == 9 {
			genMuxChurn(r, &sc)
			emit(sc)
			continue
		}
		if s%12 == 3 {
			genMuxPMTBoundary(r, &sc, s/12)
			emit(sc)
			continue
		}
		if s%12 == 7 {
			genMuxReuseAndWidePID(r, &sc, demux)
			emit(sc)
			continue
		}
		if s == 13 {
			// one very long unit: more than 8192 packets of one PID between two unit starts, then a small one
			sc.Period = 40
			sc.Ops = append(sc.Ops, muxOp{Op: "add", PID: 0x100, ST: 27, DK: "none"}, muxOp{Op: "setpcr", PID: 0x100}, muxOp{Op: "tables"},
				muxOp{Op: "data", PID: 0x100, Len: 1600000, Hdr: "pts", AF: "rai", SID: 0xe0}, muxOp{Op: "data", PID: 0x100, Len: 26, Hdr: "pts", AF: "none", SID: 0xe0})
			emit(sc)
			continue
		}
		if s == 61 && !demux {
			// units without payload but with an adaptation field (a caller that only wants to send a PCR): whatever the Muxer does with them,
			// the counters of the payload packets around them are consecutive and an adaptation-only packet consumes none
			sc.Period = 40
			sc.Ops = append(sc.Ops, muxOp{Op: "add", PID: 0x100, ST: 27, DK: "none"}, muxOp{Op: "setpcr", PID: 0x100}, muxOp{Op: "tables"})
			for i := 0; i < 6; i++ {
				sc.Ops = append(sc.Ops, muxOp{Op: "data", PID: 0x100, Len: r.pick(100, 184, 300), Hdr: "pts", AF: "none"},
					muxOp{Op: "data", PID: 0x100, Len: 0, Hdr: "pts", AF: []string{"pcr", "raipcr", "rai"}[i%3]})
			}
			sc.Ops = append(sc.Ops, muxOp{Op: "data", PID: 0x100, Len: 50, Hdr: "pts", AF: "none"})
			emit(sc)
			continue
		}
		if s == 49 {
			// payloads made of start codes: whatever the header and adaptation field sizes, some continuation packet begins with one
			sc.Ops = append(sc.Ops, muxOp{Op: "add", PID: 0x100, ST: 27, DK: "none"}, muxOp{Op: "add", PID: 0x101, ST: 15, DK: "none"}, muxOp{Op: "setpcr", PID: 0x100}, muxOp{Op: "tables"})
			for i := 0; i < 16; i++ {
				sc.Ops = append(sc.Ops, muxOp{Op: "data", PID: 0x100 + i%2, Len: r.pick(400, 700, 1000), Hdr: []string{"pts", "ptsdts", "none", "full"}[(i/4)%4], AF: []string{"none", "rai", "raipcr", "priv10"}[(i/4)%4],
					Fill: fmt.Sprintf("sc%d", i%4)})
			}
			emit(sc)
			continue
		}
		if s == 37 {
			// packets that came out of the Demuxer, written again as they are
			sc.Ops = append(sc.Ops, muxOp{Op: "add", PID: 0x100, ST: 27, DK: "none"}, muxOp{Op: "setpcr", PID: 0x100}, muxOp{Op: "tables"})
			for i := 0; i < 6; i++ {
				sc.Ops = append(sc.Ops, muxOp{Op: "packet", Kind: []string{"parsedextonly", "parsedext"}[i%2]}, muxOp{Op: "data", PID: 0x100, Len: r.pick(1, 100, 300), Hdr: "pts", AF: "none"})
			}
			emit(sc)
			continue
		}
		if s == 25 {
			// a stream removed, then 1100 other streams added and removed, then the first one added again: it carries on where it stopped
			sc.Period = 40
			sc.Ops = append(sc.Ops, muxOp{Op: "add", PID: 0x100, ST: 27, DK: "none"}, muxOp{Op: "setpcr", PID: 0x100}, muxOp{Op: "add", PID: 0x200, ST: 15, DK: "none"}, muxOp{Op: "tables"})
			for i := 0; i < 3; i++ {
				sc.Ops = append(sc.Ops, muxOp{Op: "data", PID: 0x200, Len: r.pick(100, 300, 500), Hdr: "pts", AF: "none"})
			}
			sc.Ops = append(sc.Ops, muxOp{Op: "remove", PID: 0x200})
			for i := 0; i < 1100; i++ {
				sc.Ops = append(sc.Ops, muxOp{Op: "add", PID: 0x300 + i, ST: 15, DK: "none"}, muxOp{Op: "remove", PID: 0x300 + i})
			}
			sc.Ops = append(sc.Ops, muxOp{Op: "add", PID: 0x200, ST: 15, DK: "none"}, muxOp{Op: "tables"})
			for i := 0; i < 4; i++ {
				sc.Ops = append(sc.Ops, muxOp{Op: "data", PID: []int{0x200, 0x100}[i%2], Len: r.pick(100, 300), Hdr: "pts", AF: "none"})
			}
			emit(sc)
			continue
		}
		if s%12 == 1 {
			genMuxSharedHdr(r, &sc)
			emit(sc)
			continue
		}
		if s%12 == 11 {
			genMuxLowPID(r, &sc, s/12)
			emit(sc)
			continue
		}
		nops := r.rangeInt(3, maxOps)
		var live []int // pids as addressed in the scenario (explicit or -k)
		autoN := 0
		explicit := []int{256, 257, 258, 4000, 32, 8189, 0x1000, 0x1020, 0x1001}
		churn := r.intn(4) == 0 // configuration-heavy history (version wrap)
		bigOnce := s%4 == 0     // every fourth history carries payloads around the 16-bit PES_packet_length limit
		bigLeft := 2
		for i := 0; i < nops; i++ {
			x := r.intn(100)
			switch {
			case len(live) == 0 || x < 8 || (churn && x < 35):
				op := muxOp{Op: "add", ST: muxStreamTypes[r.intn(len(muxStreamTypes))], DK: r.pickS("none", "none", "si", "ud3", "ud10", "both", "none", "si", "ud3", "ud10", "both", "ud170", "ud160", "ud161", "ud159")}
				if r.intn(3) == 0 {
					op.PID = 0
					autoN++
					live = append(live, -autoN)
				} else {
					op.PID = explicit[r.intn(len(explicit))]
					dup := false
					for _, p := range live {
						if p == op.PID {
							dup = true
						}
					}
					if !dup {
						live = append(live, op.PID)
					}
				}
				sc.Ops = append(sc.Ops, op)
				if len(live) == 1 || r.intn(4) == 0 {
					sc.Ops = append(sc.Ops, muxOp{Op: "setpcr", PID: live[r.intn(len(live))]})
				}
			case x < 12 || (churn && x < 55):
				k := r.intn(len(live))
				sc.Ops = append(sc.Ops, muxOp{Op: "remove", PID: live[k]})
				live = append(live[:k], live[k+1:]...)
			case x < 15:
				sc.Ops = append(sc.Ops, muxOp{Op: "remove", PID: 999})
			case x < 19:
				p := 999
				if len(live) > 0 && r.intn(4) != 0 {
					p = live[r.intn(len(live))]
				}
				sc.Ops = append(sc.Ops, muxOp{Op: "setpcr", PID: p})
			case x < 25 || (churn && x < 75):
				sc.Ops = append(sc.Ops, muxOp{Op: "tables"})
			case x < 28:
				sc.Ops = append(sc.Ops, muxOp{Op: "packet", Kind: r.pickS("null", "short", "pcr", "toobig", "toobigaf", "nopltoobig", "hugeaf", "hugeafonly", "hugestuff", "privlen", "negstuff", "negstuff", "nilaf", "parsedext", "parsedextonly")})
			case x < 30:
				sc.Ops = append(sc.Ops, muxOp{Op: "data", PID: 999, Len: 10, Hdr: "pts", AF: "none"})
			default:
				hdr := muxHdrClasses[r.intn(len(muxHdrClasses))]
				af := muxAFClasses[r.intn(len(muxAFClasses))]
				if !demux && r.intn(30) == 0 {
					af = r.pickS("big", "bigrai", "huge", "huge8")
				}
				op := muxOp{Op: "data", PID: live[r.intn(len(live))], Hdr: hdr, AF: af}
				op.Len = boundaryLen(r, hdr, af, false)
				if bigOnce && bigLeft > 0 && (r.intn(6) == 0 || i >= nops-3) {
					h := pesHeaderLen(hdr) - 6
					// around the limit of payload + optional header (65535-h) and of the payload alone (65535): in between, a sum kept in
					// 16 bits wraps to 1..h-1
					op.Len = r.pick(65535-h-1, 65535-h, 65535-h+1, 65535-h+2, 65535-h-3, 65534, 65535, 65535, 65536, 70000)
					if bigLeft == 2 { // the first of them: payload alone within 16 bits, payload + optional header beyond, length bounded
						if hdr == "none" || hdr == "bare" {
							hdr = r.pickS("pts", "ptsdts", "full")
							op.Hdr = hdr
						}
						op.Len = r.pick(65535, 65534, 65535-(pesHeaderLen(hdr)-6)+2)
						op.SID = r.pick(0xc0, 0xbd, 0xfd)
					} else if hdr != "none" {
						op.SID = r.pick(0xc0, 0xbd, 0xfd, 0xe0) // PES_packet_length is only bounded for non-video stream ids
					}
					bigLeft--
				} else if hdr != "none" && r.intn(3) == 0 {
					op.SID = r.pick(0xc0, 0xe0, 0xbd, 0xfd, 0xc5)
				}
				sc.Ops = append(sc.Ops, op)
			}
		}
		emit(sc)
	}
}

// genMuxPMTBoundary: the PMT grows to 2 bytes under, 1 under, exactly, 1 over and 2 over what one packet holds (PMT data of 4 + sum(5 +
// descriptors) = 171 bytes fits exactly: pointer 1 + header 3 + syntax 5 + data + CRC 4 = 184), tables are written (or refused), the PMT
// shrinks again and tables and data follow: counters and versions around emissions that are refused by a hair
func genMuxPMTBoundary(r *rng, sc *muxScenario, k int) {
	n := r.rangeInt(1, 6) // plain streams
	sc.Ops = append(sc.Ops, muxOp{Op: "add", PID: 0x100, ST: 27, DK: "none"}, muxOp{Op: "setpcr", PID: 0x100})
	for i := 1; i < n; i++ {
		sc.Ops = append(sc.Ops, muxOp{Op: "add", PID: 0x100 + i, ST: 15, DK: "none"})
	}
	sc.Ops = append(sc.Ops, muxOp{Op: "tables"}, muxOp{Op: "data", PID: 0x100, Len: r.rangeInt(1, 400), Hdr: "pts", AF: "none"})
	targets := []int{169, 170, 171, 172, 173, 174, 180}
	for j := 0; j < 4; j++ {
		t := targets[(k+j*3+r.intn(2))%len(targets)]
		c := t - 4 - 5*n - 5 - 2 // content bytes of the user-defined descriptor of one more stream
		if j == 3 && r.boolean() {
			c = r.pick(256+44, 300, 400, 511, 513) // a body that does not fit the 8-bit descriptor_length: refused like any PMT that is too large
		}
		sc.Ops = append(sc.Ops, muxOp{Op: "add", PID: 0x180, ST: 6, DK: fmt.Sprintf("ud%d", c)})
		sc.Ops = append(sc.Ops, muxOp{Op: r.pickS("tables", "data"), PID: 0x100, Len: r.rangeInt(1, 300), Hdr: "pts", AF: r.pickS("none", "rai")})
		sc.Ops = append(sc.Ops, muxOp{Op: "data", PID: 0x100, Len: r.rangeInt(1, 300), Hdr: "pts", AF: "none"})
		sc.Ops = append(sc.Ops, muxOp{Op: "remove", PID: 0x180})
		sc.Ops = append(sc.Ops, muxOp{Op: "tables"}, muxOp{Op: "data", PID: 0x100, Len: r.rangeInt(1, 300), Hdr: "pts", AF: "rai"})
	}
}

// genMuxReuseAndWidePID: (a) one adaptation field object handed to several WriteData calls, among them calls whose field leaves no room for
// the PES header (adaptation-only first packet) - the object comes back clean every time; (b) an explicit PID wider than 13 bits: the
// stream goes out on the PID's 13 low bits and nothing else of the header moves
func genMuxReuseAndWidePID(r *rng, sc *muxScenario, demux bool) {
	sc.Reuse = true
	wide := r.pick(0x4123, 0x2123, 0x8123, 0xe123, 0x3000, 0x3000)
	sc.Ops = append(sc.Ops, muxOp{Op: "add", PID: 0x100, ST: 27, DK: "none"}, muxOp{Op: "setpcr", PID: 0x100},
		muxOp{Op: "add", PID: wide, ST: 15, DK: r.pickS("none", "si")}, muxOp{Op: "tables"})
	for i, n := 0, r.rangeInt(6, 14); i < n; i++ {
		hdr := r.pickS("pts", "ptsdts", "full")
		af := r.pickS("bigrai", "bigrai", "rai", "raipcr", "priv10", "none")
		if demux && af == "bigrai" {
			af = "raipcr"
		}
		pid := 0x100
		if i%3 == 2 {
			pid = wide
		}
		sc.Ops = append(sc.Ops, muxOp{Op: "data", PID: pid, Len: r.pick(1, 100, 184, 185, 400, 1000), Hdr: hdr, AF: af})
	}
}

// genMuxLowPID: an elementary stream on an explicit PID at the bottom of the range (ISO-reserved 0x01..0x0f, the DVB SI PIDs 0x10..0x1f
// which the Demuxer reads as PSI whatever the PMT says, and the first free ones): the stream is either refused or comes back (C01)
func genMuxLowPID(r *rng, sc *muxScenario, k int) {
	lows := []int{0x11, 0x1fff, 0x10, 0x12, 0x13, 0x14, 0x1e, 0x1f, 0x01, 0x02, 0x0f, 0x15, 0x1d, 0x20, 0x21, 0x1ffe}
	low := lows[k%len(lows)]
	sc.Ops = append(sc.Ops, muxOp{Op: "add", PID: 0x100, ST: 27, DK: "none"}, muxOp{Op: "setpcr", PID: 0x100},
		muxOp{Op: "add", PID: low, ST: 15, DK: r.pickS("none", "si")}, muxOp{Op: "tables"})
	for i, n := 0, r.rangeInt(6, 12); i < n; i++ {
		pid := 0x100
		if i%2 == 1 {
			pid = low
		}
		sc.Ops = append(sc.Ops, muxOp{Op: "data", PID: pid, Len: r.pick(1, 100, 184, 185, 400, 1000), Hdr: r.pickS("pts", "ptsdts", "none"), AF: r.pickS("none", "rai", "raipcr")})
	}
}

// genMuxSharedHdr: streams of different types (video 0xe0, audio 0xc0, AC-3 0xfd, private 0xbd) written in turn with one shared PESHeader
// object whose stream id is left to the muxer: every PES carries the id of its own stream's type (C01)
func genMuxSharedHdr(r *rng, sc *muxScenario) {
	sc.SharedHdr = true
	sts := []int{27, 15, 0x81, 6}
	for i, st := range sts {
		sc.Ops = append(sc.Ops, muxOp{Op: "add", PID: 0x100 + i, ST: st, DK: "none"})
	}
	sc.Ops = append(sc.Ops, muxOp{Op: "setpcr", PID: 0x100}, muxOp{Op: "tables"})
	for i, n := 0, r.rangeInt(8, 14); i < n; i++ {
		sc.Ops = append(sc.Ops, muxOp{Op: "data", PID: 0x100 + (i+i/4)%len(sts), Len: r.pick(1, 100, 184, 400), Hdr: r.pickS("pts", "pts", "ptsdts"), AF: r.pickS("none", "rai")})
	}
}

// countWrites runs a scenario fault-free against a counting writer and returns the number of Write calls
func countWrites(sc muxScenario) int {
	w := &recWriter{}
	runMuxOn(&sc, newNullRecorder(), w)
	return w.wcalls
}

// genMuxFault: base histories whose last packet needs 0, 1, 2 and many stuffing bytes (plus tables and WritePacket),
// each expanded into one scenario per Write-call index and failure mode (C18)
func genMuxFault(seed uint64, n int, maxOps int, emit func(interface{})) {
	r := newRng(seed)
	for s := 0; s < n; s++ {
		hdr := muxHdrClasses[r.intn(len(muxHdrClasses))]
		af := r.pickS("none", "none", "pcr", "rai", "rich", "priv10")
		if s%6 == 4 {
			af = "bigrai" // the adaptation field leaves no room for the PES header: an adaptation-only packet goes first
		}
		c1 := 184 - afTotalLen(af) - pesHeaderLen(hdr)
		stuff := []int{0, 1, 2, 3, 50}[s%5]
		base := muxScenario{Kind: "mux", Seed: r.u64() >> 1, Period: r.pick(1, 2, 40)}
		base.Ops = []muxOp{{Op: "add", PID: 256, ST: 15, DK: r.pickS("none", "si", "ud3")}, {Op: "setpcr", PID: 256}}
		if r.boolean() {
			base.Ops = append(base.Ops, muxOp{Op: "tables"})
		}
		ln := c1 - stuff
		if r.boolean() {
			ln += 184 * r.rangeInt(1, 2)
		}
		if ln < 1 {
			ln = 1
		}
		base.Ops = append(base.Ops, muxOp{Op: "data", PID: 256, Len: ln, Hdr: hdr, AF: af})
		extra := r.intn(maxOps)
		for i := 0; i < extra && i < 4; i++ {
			switch r.intn(4) {
			case 0:
				base.Ops = append(base.Ops, muxOp{Op: "packet", Kind: r.pickS("null", "short", "pcr", "richaf")})
			case 1:
				base.Ops = append(base.Ops, muxOp{Op: "tables"})
			default:
				h2 := muxHdrClasses[r.intn(len(muxHdrClasses))]
				af2 := r.pickS("none", "none", "rich")
				base.Ops = append(base.Ops, muxOp{Op: "data", PID: 256, Len: 184 - afTotalLen(af2) - pesHeaderLen(h2) - []int{0, 1, 2, 7}[r.intn(4)], Hdr: h2, AF: af2})
			}
		}
		// every history ends with two more units on the stream: what a failure left behind shows in the calls after it
		for i := 0; i < 2; i++ {
			base.Ops = append(base.Ops, muxOp{Op: "data", PID: 256, Len: r.pick(1, 100, 184, 300), Hdr: "pts", AF: "none"})
		}
		W := countWrites(base)
		if s%3 == 0 {
			// the context handed to NewMuxer is cancelled during one of the Write calls (every 7th position)
			for at := s % 7; at < W; at += 7 {
				sc := base
				sc.SID = fmt.Sprintf("mf-%d-%d-%d-cancel", seed, s, at)
				sc.Fault = &muxFault{At: at, Mode: "cancel"}
				emit(sc)
			}
			// the writer reports a failure (full count) on two of the PAT packets of a table-heavy history
			tb := muxScenario{Kind: "mux", Seed: r.u64() >> 1, Period: r.pick(1, 2, 40)}
			tb.Ops = []muxOp{{Op: "add", PID: 256, ST: 15, DK: "none"}, {Op: "setpcr", PID: 256}}
			for i := 0; i < 7; i++ {
				tb.Ops = append(tb.Ops, muxOp{Op: "tables"})
				if i%3 == 1 {
					tb.Ops = append(tb.Ops, muxOp{Op: "data", PID: 256, Len: r.pick(1, 100, 300), Hdr: "pts", AF: r.pickS("none", "rai")})
				}
			}
			for _, pr := range [][2]int{{2, 3}, {2, 4}, {3, 6}, {1, 2}} {
				sc := tb
				sc.SID = fmt.Sprintf("mf-%d-%d-%d-%d-pattwice", seed, s, pr[0], pr[1])
				sc.Fault = &muxFault{At: pr[0], At2: pr[1], Mode: "pattwice"}
				emit(sc)
			}
		}
		for at := 0; at < W; at++ {
			modes := []string{"once", "perm"}
			if at%3 == s%3 { // every third position also with the failure reported together with the full count
				modes = append(modes, "oncefull", "permfull")
			}
			for _, mode := range modes {
				sc := base
				sc.SID = fmt.Sprintf("mf-%d-%d-%d-%s", seed, s, at, mode)
				sc.Fault = &muxFault{At: at, Mode: mode}
				emit(sc)
			}
		}
	}
}

// genMuxSweep: a long life of one Muxer with thousands of automatic PID assignments (the assignment cursor crosses the PMT PID
// 0x1000 and explicitly added PIDs on its way), then ordinary traffic on the streams that remain
func genMuxSweep(r *rng, sc *muxScenario, demux bool) {
	sc.Ops = append(sc.Ops, muxOp{Op: "add", PID: 0x0fff, ST: 15, DK: "none"}, muxOp{Op: "setpcr", PID: 0x0fff})
	n := 0
	if r.boolean() {
		// all the way to the top of the PID range, whose last PIDs are held by explicit streams: the assignments end with an error, never
		// with the null PID or a PID in use
		sc.Ops = append(sc.Ops, muxOp{Op: "add", PID: 0x1ffe, ST: 15, DK: "none"})
		if r.boolean() {
			sc.Ops = append(sc.Ops, muxOp{Op: "add", PID: 0x1ffd, ST: 15, DK: "none"})
		}
		for i := 0; i < 7945; i++ {
			sc.Ops = append(sc.Ops, muxOp{Op: "add", PID: 0, ST: 27, DK: "none"})
			n++
			if i < 7925 || i%2 == 0 {
				sc.Ops = append(sc.Ops, muxOp{Op: "remove", PID: -n})
			}
		}
		sc.Ops = append(sc.Ops, muxOp{Op: "tables"}, muxOp{Op: "data", PID: 0x0fff, Len: 200, Hdr: "pts", AF: "pcr"})
		return
	}
	// an explicit stream sits right behind the PMT's PID while the automatic assignments walk past it
	held := r.boolean()
	if held {
		sc.Ops = append(sc.Ops, muxOp{Op: "add", PID: 0x1001, ST: 27, DK: "none"}, muxOp{Op: "tables"}, muxOp{Op: "data", PID: 0x1001, Len: 300, Hdr: "pts", AF: "none"})
	}
	for i := 0; i < 3860; i++ {
		if held && i == 3850 {
			sc.Ops = append(sc.Ops, muxOp{Op: "data", PID: 0x1001, Len: 200, Hdr: "pts", AF: "none"}, muxOp{Op: "data", PID: 0x1001, Len: 100, Hdr: "pts", AF: "none"})
		}
		sc.Ops = append(sc.Ops, muxOp{Op: "add", PID: 0, ST: 27, DK: "none"})
		n++
		if i < 3836 {
			sc.Ops = append(sc.Ops, muxOp{Op: "remove", PID: -n})
		} else {
			sc.Ops = append(sc.Ops, muxOp{Op: "data", PID: -n, Len: r.rangeInt(1, 300), Hdr: "pts", AF: "none"})
		}
		if i == 3838 || i == 3845 {
			sc.Ops = append(sc.Ops, muxOp{Op: "tables"})
		}
	}
	sc.Ops = append(sc.Ops, muxOp{Op: "tables"}, muxOp{Op: "data", PID: 0x0fff, Len: 200, Hdr: "pts", AF: "pcr"})
}

// genMuxChurn: many distinct PIDs are added, written, removed and added again much later (what a long-running re-multiplexer does)
func genMuxChurn(r *rng, sc *muxScenario) {
	pool := 70 + r.intn(30)
	pid := func(k int) int { return 0x200 + k }
	sc.Ops = append(sc.Ops, muxOp{Op: "add", PID: 0x100, ST: 27, DK: "none"}, muxOp{Op: "setpcr", PID: 0x100})
	for k := 0; k < pool; k++ {
		sc.Ops = append(sc.Ops, muxOp{Op: "add", PID: pid(k), ST: 15, DK: "none"})
		for j, n := 0, r.rangeInt(1, 3); j < n; j++ {
			sc.Ops = append(sc.Ops, muxOp{Op: "data", PID: pid(k), Len: r.rangeInt(1, 400), Hdr: "pts", AF: "none"})
		}
		sc.Ops = append(sc.Ops, muxOp{Op: "remove", PID: pid(k)})
	}
	for _, k := range []int{0, 1, 2, pool / 2, pool - 1} {
		sc.Ops = append(sc.Ops, muxOp{Op: "add", PID: pid(k), ST: 15, DK: "none"},
			muxOp{Op: "data", PID: pid(k), Len: r.rangeInt(1, 400), Hdr: "pts", AF: "none"},
			muxOp{Op: "data", PID: pid(k), Len: r.rangeInt(1, 400), Hdr: "pts", AF: "none"})
	}
}
