package main

import (
	"bufio"
	"crypto/sha256"
	"encoding/hex"
	"encoding/json"
	"fmt"
	"os"
	"sync"
)

// ---------- deterministic PRNG (splitmix64) ----------

type rng struct{ s uint64 }

func newRng(seed uint64) *rng { return &rng{s: seed*0x9E3779B97F4A7C15 + 0x1234567} }
func (r *rng) u64() uint64 {
	r.s += 0x9E3779B97F4A7C15
	z := r.s
	z = (z ^ (z >> 30)) * 0xBF58476D1CE4E5B9
	z = (z ^ (z >> 27)) * 0x94D049BB133111EB
	return z ^ (z >> 31)
}
func (r *rng) intn(n int) int {
	if n <= 0 {
		return 0
	}
	return int(r.u64() % uint64(n))
}
func (r *rng) rangeInt(lo, hi int) int { return lo + r.intn(hi-lo+1) }
func (r *rng) boolean() bool           { return r.u64()&1 == 1 }
func (r *rng) bytes(n int) []byte {
	b := make([]byte, n)
	for i := 0; i < n; i += 8 {
		v := r.u64()
		for j := 0; j < 8 && i+j < n; j++ {
			b[i+j] = byte(v >> (8 * j))
		}
	}
	return b
}
func (r *rng) pick(xs ...int) int        { return xs[r.intn(len(xs))] }
func (r *rng) pickS(xs ...string) string { return xs[r.intn(len(xs))] }

func hashStr(s string) uint64 {
	h := uint64(1469598103934665603)
	for i := 0; i < len(s); i++ {
		h ^= uint64(s[i])
		h *= 1099511628211
	}
	return h
}

// ---------- digests and JSON-friendly values ----------

func digest(b []byte) string {
	h := sha256.Sum256(b)
	return hex.EncodeToString(h[:8])
}

func ints(b []byte) []int {
	o := make([]int, len(b))
	for i, x := range b {
		o[i] = int(x)
	}
	return o
}

func toBytes(xs []int) []byte {
	o := make([]byte, len(xs))
	for i, x := range xs {
		o[i] = byte(x)
	}
	return o
}

// wide splits a value of up to 47 bits into [hi, lo16] so that TLC's 32-bit integers can carry it
func wide(v int64) []int { return []int{int(uint64(v) >> 16), int(uint64(v) & 0xffff)} }

func fromWide(w []int) int64 {
	if len(w) != 2 {
		return 0
	}
	return int64(w[0])<<16 | int64(w[1])
}

type M = map[string]interface{}

// ---------- recorder ----------

type recorder struct {
	mu sync.Mutex
	w  *bufio.Writer
	f  *os.File
	n  int

	null bool
}

func newRecorder(path string) *recorder {
	f, err := os.Create(path)
	if err != nil {
		fatal("create trace: %v", err)
	}
	return &recorder{w: bufio.NewWriterSize(f, 1<<20), f: f}
}

// newNullRecorder discards events (used for dry runs)
func newNullRecorder() *recorder { return &recorder{null: true} }

func (r *recorder) ev(m M) {
	if r.null {
		return
	}
	b, err := json.Marshal(m)
	if err != nil {
		fatal("marshal event: %v", err)
	}
	r.mu.Lock()
	r.w.Write(b)
	r.w.WriteByte('\n')
	r.n++
	r.mu.Unlock()
}

func (r *recorder) close() {
	r.w.Flush()
	r.f.Close()
}

func fatal(f string, a ...interface{}) {
	fmt.Fprintf(os.Stderr, "HARNESS-FATAL: "+f+"\n", a...)
	os.Exit(2)
}

// readNDJSON calls fn for every non-empty line of the file
func readNDJSON(path string, fn func(line []byte)) {
	f, err := os.Open(path)
	if err != nil {
		fatal("open %s: %v", path, err)
	}
	defer f.Close()
	sc := bufio.NewScanner(f)
	sc.Buffer(make([]byte, 1<<20), 1<<28)
	for sc.Scan() {
		b := sc.Bytes()
		if len(b) == 0 {
			continue
		}
		c := make([]byte, len(b))
		copy(c, b)
		fn(c)
	}
	if err := sc.Err(); err != nil {
		fatal("read %s: %v", path, err)
	}
}
