package main

import (
	"encoding/json"

	"github.com/asticode/go-astits"
)

// ---------- C10: CRC-32/MPEG-2 (values from the verif-tagged exports of the real functions) ----------

type crcScenario struct {
	SID  string `json:"sid"`
	Kind string `json:"kind"`
	Seed uint64 `json:"seed"`
	Part string `json:"part"` // table | basis | short | msgs
	N    int    `json:"n"`
	Lo   int    `json:"lo"`
	Hi   int    `json:"hi"`
	Max  int    `json:"max"`
}

func u32(v uint32) []int { return []int{int(v >> 16), int(v & 0xffff)} }

func runCRC(line []byte, rec *recorder) {
	var sc crcScenario
	if err := json.Unmarshal(line, &sc); err != nil {
		fatal("bad crc scenario: %v", err)
	}
	rec.ev(M{"ev": "reset", "t": sc.SID, "kind": "crc", "part": sc.Part})
	rg := newRng(sc.Seed ^ hashStr(sc.SID))
	msg := func(m []byte) {
		v := astits.VerifComputeCRC32(m)
		inc := make([][]int, 0, len(m)+1)
		for j := 0; j <= len(m); j++ {
			x := astits.VerifUpdateCRC32(astits.VerifUpdateCRC32(0xffffffff, m[:j]), m[j:])
			inc = append(inc, u32(x))
		}
		withCRC := append(append([]byte(nil), m...), byte(v>>24), byte(v>>16), byte(v>>8), byte(v))
		rec.ev(M{"ev": "msg", "m": ints(m), "v": u32(v), "inc": inc, "res": u32(astits.VerifComputeCRC32(withCRC))})
	}
	switch sc.Part {
	case "table":
		t := astits.VerifCRC32Table()
		for i := 0; i < 256; i++ {
			rec.ev(M{"ev": "tab", "i": i, "v": u32(t[i])})
		}
	case "basis":
		states := []uint32{0, 0xffffffff}
		for k := 0; k < 32; k++ {
			states = append(states, 1<<uint(k))
		}
		for i := 0; i < sc.N; i++ {
			states = append(states, uint32(rg.u64()))
		}
		for si, s := range states {
			for b := 0; b < 256; b++ {
				if si >= 34 && b != int(rg.u64()&0xff) && rg.intn(16) != 0 {
					continue // random states: a sample of bytes
				}
				rec.ev(M{"ev": "upd", "s": u32(s), "b": b, "v": u32(astits.VerifUpdateCRC32(s, []byte{byte(b)}))})
			}
		}
	case "short":
		for k := sc.Lo; k < sc.Hi; k++ {
			switch {
			case k == 0:
				msg(nil)
			case k <= 256:
				msg([]byte{byte(k - 1)})
			default:
				x := k - 257
				msg([]byte{byte(x >> 8), byte(x)})
			}
		}
	case "long":
		// one pass over 64 KB and more (a PES payload, a file), and value patterns: the register's own value followed by zeros, a message
		// followed by its checksum and zeros, at offsets that are and are not multiples of 4 / 8
		for _, n := range []int{65535, 65536, 65537, 65540, 70001} {
			m := rg.bytes(n)
			rec.ev(M{"ev": "cmp", "m": ints(m), "v": u32(astits.VerifComputeCRC32(m))})
		}
		for _, n := range []int{0, 1, 4, 7, 8, 9, 16, 24, 40, 64, 184, 1000} {
			m := rg.bytes(n)
			v := astits.VerifComputeCRC32(m)
			for _, z := range []int{1, 3, 4, 5, 8, 12, 16} {
				mm := append(append(append([]byte(nil), m...), byte(v>>24), byte(v>>16), byte(v>>8), byte(v)), make([]byte, z)...)
				mm = append(mm, rg.bytes(rg.pick(0, 0, 1, 5))...)
				rec.ev(M{"ev": "cmp", "m": ints(mm), "v": u32(astits.VerifComputeCRC32(mm))})
			}
		}
		for i := 0; i < 40; i++ {
			st := uint32(rg.u64())
			if i < 3 {
				st = []uint32{0xffffffff, 1, 0x80000000}[i]
			}
			pre := rg.bytes(rg.pick(0, 0, 8, 16, 3))
			st2 := astits.VerifUpdateCRC32(st, pre)
			m := append(append([]byte(nil), pre...), byte(st2>>24), byte(st2>>16), byte(st2>>8), byte(st2))
			m = append(append(m, make([]byte, rg.pick(4, 4, 8, 1, 12))...), rg.bytes(rg.pick(0, 4, 9))...)
			rec.ev(M{"ev": "updm", "s": u32(st), "m": ints(m), "v": u32(astits.VerifUpdateCRC32(st, m))})
		}
	case "msgs":
		for i := 0; i < sc.N; i++ {
			n := rg.intn(sc.Max + 1)
			if i%7 == 0 {
				n = rg.pick(3, 4, 5, 8, 16, 183, 184, 188, sc.Max)
			}
			msg(rg.bytes(n))
		}
	case "pieces": // multi-byte pieces fed into arbitrary register states (0, single bits, all ones, random), zeros sprinkled in
		states := []uint32{0, 0xffffffff, 1, 0x80000000, 0x04c11db7}
		for i := 0; i < sc.N; i++ {
			states = append(states, uint32(rg.u64()))
		}
		for _, st := range states {
			for rep := 0; rep < 6; rep++ {
				m := rg.bytes(rg.pick(1, 2, 3, 5, 9, 40))
				switch rep {
				case 0:
					m[len(m)-1] = 0
				case 1:
					m[0] = 0
				case 2:
					m[0], m[len(m)-1] = 0, 0
				case 3:
					for j := range m {
						if j%2 == 1 {
							m[j] = 0
						}
					}
				case 4:
					for j := range m {
						m[j] = 0
					}
				}
				rec.ev(M{"ev": "updm", "s": u32(st), "m": ints(m), "v": u32(astits.VerifUpdateCRC32(st, m))})
			}
		}
		// the same buffer checksummed again after being changed in place
		for i := 0; i < sc.N; i++ {
			buf := rg.bytes(rg.pick(8, 9, 16, 64, 188, 1024))
			for rep := 0; rep < 3; rep++ {
				msg(buf)
				buf[rg.intn(len(buf))] ^= byte(1 << uint(rg.intn(8)))
			}
			// back to back on the very same memory: compute, change a byte in place, compute again
			for rep := 0; rep < 3; rep++ {
				rec.ev(M{"ev": "cmp", "m": ints(buf), "v": u32(astits.VerifComputeCRC32(buf))})
				buf[rg.intn(len(buf))] ^= byte(1 << uint(rg.intn(8)))
				rec.ev(M{"ev": "cmp", "m": ints(buf), "v": u32(astits.VerifComputeCRC32(buf))})
			}
		}
	default:
		fatal("unknown crc part %q", sc.Part)
	}
}
