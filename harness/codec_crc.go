package main

import (
	"encoding/json"

	"github.com/asticode/go-astits"
)

// ---------- C10: CRC-32/MPEG-2 (values from the verif-tagged exports of the real functions) ----------

type crcScenario struct {
	SID  string `json:"sid"`
	Kind string `json:"kind"`
	Seed uint64 `json:"seed"`
	Part string `json:"part"` // table | basis | short | msgs
	N    int    `json:"n"`
	Lo   int    `json:"lo"`
	Hi   int    `json:"hi"`
	Max  int    `json:"max"`
}

func u32(v uint32) []int { return []int{int(v >> 16), int(v & 0xffff)} }

func runCRC(line []byte, rec *recorder) {
	var sc crcScenario
	if err := json.Unmarshal(line, &sc); err != nil {
		fatal("bad crc scenario: %v", err)
	}
	rec.ev(M{"ev": "reset", "t": sc.SID, "kind": "crc", "part": sc.Part})
	rg := newRng(sc.Seed ^ hashStr(sc.SID))
	msg := func(m []byte) {
		v := astits.VerifComputeCRC32(m)
		inc := make([][]int, 0, len(m)+1)
		for j := 0; j <= len(m); j++ {
			x := astits.VerifUpdateCRC32(astits.VerifUpdateCRC32(0xffffffff, m[:j]), m[j:])
			inc = append(inc, u32(x))
		}
		withCRC := append(append([]byte(nil), m...), byte(v>>24), byte(v>>16), byte(v>>8), byte(v))
		rec.ev(M{"ev": "msg", "m": ints(m), "v": u32(v), "inc": inc, "res": u32(astits.VerifComputeCRC32(withCRC))})
	}
	switch sc.Part {
	case "table":
		t := astits.VerifCRC32Table()
		for i := 0; i < 256; i++ {
			rec.ev(M{"ev": "tab", "i": i, "v": u32(t[i])})
		}
	case "basis":
		states := []uint32{0, 0xffffffff}
		for k := 0; k < 32; k++ {
			states = append(states, 1<<uint(k))
		}
		for i := 0; i < sc.N; i++ {
			states = append(states, uint32(rg.u64()))
		}
		for si, s := range states {
			for b := 0; b < 256; b++ {
				if si >= 34 && b != int(rg.u64()&0xff) && rg.intn(16) != 0 {
					continue // random states: a sample of bytes
				}
				rec.ev(M{"ev": "upd", "s": u32(s), "b": b, "v": u32(astits.VerifUpdateCRC32(s, []byte{byte(b)}))})
			}
		}
	case "short":
		for k := sc.Lo; k < sc.Hi; k++ {
			switch {
			case k == 0:
				msg(nil)
			case k <= 256:
				msg([]byte{byte(k - 1)})
			default:
				x := k - 257
				msg([]byte{byte(x >> 8), byte(x)})
			}
		}
	case "msgs":
		for i := 0; i < sc.N; i++ {
			n := rg.intn(sc.Max + 1)
			if i%7 == 0 {
				n = rg.pick(3, 4, 5, 8, 16, 183, 184, 188, sc.Max)
			}
			msg(rg.bytes(n))
		}
	default:
		fatal("unknown crc part %q", sc.Part)
	}
}
