package main

import (
	"bufio"
	"context"
	"fmt"
	"io"
	"os"
	"os/exec"
	"sync/atomic"
	"time"

	"github.com/asticode/go-astits"
)

// ---------- C03: any finite input, every configuration: no panic, no spinning, bounded calls to ErrNoMorePackets ----------

type robustInput struct {
	name string
	b    []byte
}

// streamOffsetOf maps a unit byte offset to its offset in the stream (or -1 when the byte is not carried)
func streamOffsetOf(bs *builtStream, uid, off int) int {
	for i := range bs.pkts {
		p := &bs.pkts[i]
		if p.K == "" && p.U == uid && p.F != "dup" && off >= p.Off && off < p.Off+p.N {
			return i*188 + 4 + (184 - p.N) + (off - p.Off)
		}
	}
	return -1
}

func setField(stream []byte, bs *builtStream, uid int, mk lenMark, val int) bool {
	o0 := streamOffsetOf(bs, uid, mk.Off)
	if o0 < 0 {
		return false
	}
	switch mk.Bits {
	case 8:
		stream[o0] = byte(val)
	case 12, 16:
		o1 := streamOffsetOf(bs, uid, mk.Off+1)
		if o1 < 0 {
			return false
		}
		if mk.Bits == 12 {
			stream[o0] = stream[o0]&0xf0 | byte(val>>8&0xf)
		} else {
			stream[o0] = byte(val >> 8)
		}
		stream[o1] = byte(val)
	}
	return true
}

func getField(stream []byte, bs *builtStream, uid int, mk lenMark) int {
	o0 := streamOffsetOf(bs, uid, mk.Off)
	if o0 < 0 {
		return -1
	}
	if mk.Bits == 8 {
		return int(stream[o0])
	}
	o1 := streamOffsetOf(bs, uid, mk.Off+1)
	if o1 < 0 {
		return -1
	}
	if mk.Bits == 12 {
		return int(stream[o0]&0xf)<<8 | int(stream[o1])
	}
	return int(stream[o0])<<8 | int(stream[o1])
}

// robustInputs derives the model-guided mutations of a well-formed stream
func robustInputs(bs *builtStream, rg *rng, level int) []robustInput {
	var ins []robustInput
	base := bs.bytes
	ins = append(ins, robustInput{"wellformed", base})
	ins = append(ins, robustInput{"empty", nil})
	// every length-like field the layouts declare x {0, 1, true-1, true+1, max}
	for _, u := range bs.units {
		for _, mk := range unitMarks[u.spec.ID] {
			tv := getField(base, bs, u.spec.ID, mk)
			if tv < 0 {
				continue
			}
			max := 1<<uint(mk.Bits) - 1
			for _, v := range []int{0, 1, tv - 1, tv + 1, max} {
				if v < 0 || v > max || v == tv {
					continue
				}
				m := append([]byte(nil), base...)
				if setField(m, bs, u.spec.ID, mk, v) {
					ins = append(ins, robustInput{fmt.Sprintf("%s=%d(was %d)", mk.Name, v, tv), m})
				}
			}
		}
	}
	// adaptation_field_length of every packet that has one
	for i := range bs.pkts {
		o := i * 188
		if base[o+3]&0x20 != 0 {
			tv := int(base[o+4])
			for _, v := range []int{0, 1, tv - 1, tv + 1, 182, 183, 184, 255} {
				if v < 0 || v == tv {
					continue
				}
				m := append([]byte(nil), base...)
				m[o+4] = byte(v)
				ins = append(ins, robustInput{fmt.Sprintf("adaptation_field_length=%d(was %d)", v, tv), m})
				if level < 2 && rg.intn(3) != 0 {
					break
				}
			}
			// flags announcing optional parts that are not there
			m := append([]byte(nil), base...)
			if tv > 0 {
				m[o+5] = byte(rg.pick(0xff, 0x1f, 0x10, 0x02, 0x03, 0x01))
				ins = append(ins, robustInput{"adaptation_flags", m})
			}
		}
	}
	// truncation: every offset of the last packet, sampled offsets elsewhere
	n := len(base)
	if n > 0 {
		for cut := n - 188; cut < n; cut++ {
			if cut > 0 && (level > 1 || cut%7 == 0 || cut > n-6 || cut < n-188+8) {
				ins = append(ins, robustInput{fmt.Sprintf("truncate@%d", cut), base[:cut]})
			}
		}
		for k := 0; k < 6*level; k++ {
			cut := rg.intn(n)
			ins = append(ins, robustInput{fmt.Sprintf("truncate@%d", cut), base[:cut]})
		}
		for _, cut := range []int{1, 2, 3, 4, 5, 187, 188, 189, 192, 193, 194} {
			if cut < n {
				ins = append(ins, robustInput{fmt.Sprintf("truncate@%d", cut), base[:cut]})
			}
		}
	}
	// random corruption, garbage with and without sync bytes
	for k := 0; k < 4*level; k++ {
		m := append([]byte(nil), base...)
		for j := 0; j < 1+rg.intn(8) && len(m) > 0; j++ {
			m[rg.intn(len(m))] = byte(rg.intn(256))
		}
		ins = append(ins, robustInput{"random-bytes", m})
	}
	g := rg.bytes(188 * 3)
	ins = append(ins, robustInput{"garbage", g})
	g2 := rg.bytes(188*4 + 57)
	for i := 0; i < len(g2); i += 188 {
		g2[i] = 0x47
	}
	ins = append(ins, robustInput{"garbage-with-sync", g2})
	ins = append(ins, robustInput{"one-byte", []byte{0x47}}, robustInput{"193-bytes", append([]byte{0x47}, make([]byte, 192)...)})
	// a PES whose header announces more header bytes than were received (the packets carrying its tail are lost: the unit is ended by the
	// next unit start or by the end of the input), for announced packet lengths below, at and above what the header needs
	for _, hl := range []int{176, 200, 255} {
		for _, pl := range []int{0, 3, 3 + hl - 1, 3 + hl, 2000, 65535} {
			for _, closed := range []bool{true, false} {
				p := make([]byte, 188)
				p[0], p[1], p[2], p[3] = 0x47, 0x41, 0x00, 0x10|byte(rg.intn(16))
				copy(p[4:], []byte{0, 0, 1, 0xc0, byte(pl >> 8), byte(pl), 0x80, byte(rg.pick(0x00, 0x80, 0xc0, 0x3f)), byte(hl)})
				copy(p[13:], rg.bytes(175))
				m := append([]byte(nil), p...)
				if closed {
					q := append([]byte(nil), p...)
					q[3] = q[3]&0xf0 | (q[3]+1)&0x0f
					m = append(m, q...)
				}
				ins = append(ins, robustInput{fmt.Sprintf("pes-header-beyond-received-hl%d-pl%d", hl, pl), m})
			}
		}
	}
	// long units: n contiguous full packets of one PID between two unit starts (the reassembly buffer grows by large factors: 2 KB,
	// 7 KB, 24 KB, 74 KB, in no particular order), as a PES-like unit, as garbage on the PAT PID and as an endless PES (no second start)
	for _, n := range []int{130, 12, 400, 40} {
		for _, pid := range []int{0x100, 0} {
			var m []byte
			cc := rg.intn(16)
			for i := 0; i <= n; i++ {
				p := make([]byte, 188)
				p[0], p[1], p[2], p[3] = 0x47, byte(pid>>8), byte(pid), 0x10|byte((cc+i)%16)
				if i == 0 || i == n {
					p[1] |= 0x40
				}
				copy(p[4:], rg.bytes(184))
				if i == 0 && pid != 0 {
					p[4], p[5], p[6], p[7], p[8], p[9] = 0, 0, 1, 0xe0, 0, 0
				}
				if i == n && rg.boolean() {
					break // the unit is only ended by the end of the input
				}
				m = append(m, p...)
			}
			ins = append(ins, robustInput{fmt.Sprintf("bigunit-%d-pid%d", n, pid), m})
		}
	}
	return ins
}

var watchdogDeadline int64 // unix nanos; 0 = disarmed

func startWatchdog(rec *recorder) {
	go func() {
		for {
			time.Sleep(200 * time.Millisecond)
			d := atomic.LoadInt64(&watchdogDeadline)
			if d != 0 && time.Now().UnixNano() > d {
				rec.ev(M{"ev": "hang", "why": "a single call did not return within 20 s"})
				rec.close()
				fmt.Println("ABORTED-AFTER-HANG")
				os.Exit(0)
			}
		}
	}()
}

type robustCfg struct {
	psize  int
	reader string
	api    string
}

// typedInputs: a stream of PAT, PMT, SDT, NIT, EIT and TOT sections that carry descriptors of every supported kind, and its
// mutations: every descriptor_length / loop length / section_length set to {0, 1, true-1, true+1, max}, with the CRC_32 left
// stale (the section body is parsed before the CRC is checked) and with the CRC_32 recomputed
func typedInputs(rg *rng, level int) []robustInput {
	var ins []robustInput
	type placed struct {
		start int // stream offset of the unit's first packet
		unit  []byte
		secAt int // offset of the section inside the unit
		kind  string
	}
	var stream []byte
	var units []placed
	cyc := rg.intn(len(descKinds))
	nextDescs := func(n int) []*astits.Descriptor { // every supported descriptor kind appears, in turn
		var ds []*astits.Descriptor
		for i := 0; i < n; i++ {
			d := randDescriptor(rg, descKinds[cyc%len(descKinds)], rg.pick(12, 30))
			cyc++
			setLength(d, "correct", rg)
			ds = append(ds, d)
		}
		return ds
	}
	add := func(k string, pid int) {
		m := randTable(rg, k, rg.rangeInt(1, 3), 0)
		switch k {
		case "pmt":
			m.PMT.ProgramDescriptors = nextDescs(2)
			for _, e := range m.PMT.ElementaryStreams {
				e.ElementaryStreamDescriptors = nextDescs(2)
			}
		case "sdt":
			for _, e := range m.SDT.Services {
				e.Descriptors = nextDescs(2)
			}
		case "nit":
			m.NIT.NetworkDescriptors = nextDescs(2)
			for _, e := range m.NIT.TransportStreams {
				e.TransportDescriptors = nextDescs(1)
			}
		case "eit":
			for _, e := range m.EIT.Events {
				e.Descriptors = nextDescs(2)
			}
		case "tot":
			m.TOT.Descriptors = nextDescs(3)
		}
		if k == "pat" {
			m.PAT.Programs = append([]*astits.PATProgram{{ProgramNumber: 1, ProgramMapID: 0x1000}}, m.PAT.Programs...)
		}
		sec := twinSection(m)
		if len(sec) > 900 {
			return
		}
		unit := append([]byte{0}, sec...)
		units = append(units, placed{len(stream), unit, 1, k})
		stream = append(stream, packetise(pid, unit, rg.intn(16))...)
	}
	add("pat", 0)
	for rep := 0; rep < 3; rep++ {
		add("pmt", 0x1000)
		add("sdt", 0x11)
		add("nit", 0x10)
		add("eit", 0x12)
		add("tot", 0x14)
	}
	ins = append(ins, robustInput{"typed-wellformed", stream})
	at := func(u placed, off int) int { return u.start + (off/184)*188 + 4 + off%184 }
	for _, u := range units {
		sec := u.unit[u.secAt:]
		for _, mk := range sectionMarks(sec) {
			get := func(b []byte) int {
				if mk.Bits == 8 {
					return int(b[mk.Off])
				}
				return int(b[mk.Off]&0xf)<<8 | int(b[mk.Off+1])
			}
			tv := get(sec)
			max := 1<<uint(mk.Bits) - 1
			for _, v := range []int{0, 1, tv - 1, tv + 1, max} {
				if v < 0 || v > max || v == tv {
					continue
				}
				for _, fix := range []bool{false, true} {
					ms := append([]byte(nil), sec...)
					if mk.Bits == 8 {
						ms[mk.Off] = byte(v)
					} else {
						ms[mk.Off] = ms[mk.Off]&0xf0 | byte(v>>8)
						ms[mk.Off+1] = byte(v)
					}
					if fix && mk.Name != "section_length" {
						c := crc32mpeg(ms[:len(ms)-4])
						copy(ms[len(ms)-4:], []byte{byte(c >> 24), byte(c >> 16), byte(c >> 8), byte(c)})
					}
					m := append([]byte(nil), stream...)
					for i := range ms {
						m[at(u, u.secAt+i)] = ms[i]
					}
					name := fmt.Sprintf("typed-%s-%s=%d(was %d)", u.kind, mk.Name, v, tv)
					if fix {
						name += "+crc"
					}
					ins = append(ins, robustInput{name, m})
				}
			}
		}
	}
	// every table_id value at a section start, behind pointer fields 0 / 1 / 3 and behind a skipped section, on a DVB PID, a PMT PID and PID 0
	for _, pid := range []int{0x11, 0x1000, 0} {
		for _, ptr := range []int{0, 1, 3} {
			var sw []byte
			sw = append(sw, packetise(0, patFor(0x1000), rg.intn(16))...)
			cc := rg.intn(16)
			for tid := 0; tid < 256; tid++ {
				unit := []byte{byte(ptr)}
				for j := 0; j < ptr; j++ {
					unit = append(unit, 0xff)
				}
				if tid%2 == 1 { // a skipped (recognised, undecoded) section first
					unit = append(unit, 0x72, 0x00, 0x02, 0xaa, 0xbb)
				}
				body := rg.bytes(rg.pick(0, 4, 9, 20))
				unit = append(unit, byte(tid), 0xb0, byte(len(body)))
				unit = append(unit, body...)
				sw = append(sw, packetise(pid, unit, cc)...)
				cc++
			}
			ins = append(ins, robustInput{fmt.Sprintf("tidsweep-pid%d-ptr%d", pid, ptr), sw})
		}
	}
	return ins
}

var deepSkipDone bool

func runRobust(sc *streamScenario, rec *recorder, level int) {
	bs := buildStream(sc.Units, sc.Pkts, sc.PMTPIDs, sc.Seed, sc.Complete)
	rg := newRng(sc.Seed ^ 0x3030)
	rec.ev(M{"ev": "reset", "t": sc.SID, "kind": "robust", "npkts": len(bs.pkts)})
	if !deepSkipDone {
		// once per run: 600 000 packets in a row dropped by a PacketSkipper, with a 48 MB stack, in a child process (deepSkipChild, demux.go);
		// a child that dies is recorded as a panicking call
		deepSkipDone = true
		cctx, cancel := context.WithTimeout(context.Background(), 120*time.Second)
		err := exec.CommandContext(cctx, os.Args[0], "deepskip").Run()
		cancel()
		res := []int{2, 2, 2}
		if err != nil {
			res = []int{3}
		}
		rec.ev(M{"ev": "case", "input": "deepskip-600000-skipped-packets", "len": 0, "psize": 188, "reader": "generated", "api": "packet", "res": res, "cons": []int{0, 0, 0}[:len(res)]})
	}
	var all []robustCfg
	for _, ps := range []int{-1, 188, 192, 204, 189, 257, 1024} {
		for _, rd := range []string{"bytes", "bufio", "plain", "chunk", "bufio16", "bufio190"} {
			for _, api := range []string{"packet", "data"} {
				all = append(all, robustCfg{ps, rd, api})
			}
		}
	}
	inputs := robustInputs(bs, rg, level)
	if sc.Run.API != "notyped" {
		inputs = append(inputs, typedInputs(rg, level)...)
	}
	for _, in := range inputs {
		cfgs := all
		if level < 2 && in.name != "empty" && in.name != "wellformed" && in.name != "typed-wellformed" {
			cfgs = nil
			for k := 0; k < 3; k++ {
				cfgs = append(cfgs, all[rg.intn(len(all))])
			}
		}
		if len(in.name) > 26 && in.name[:26] == "pes-header-beyond-received" {
			cfgs = []robustCfg{{188, "bytes", "data"}, {-1, "bytes", "data"}}
		}
		if len(in.name) > 7 && in.name[:7] == "bigunit" {
			cfgs = []robustCfg{{188, "bytes", "data"}, {-1, "bufio", "data"}, {188, "plain", "data"}}
		}
		if len(in.name) > 8 && in.name[:8] == "tidsweep" {
			cfgs = []robustCfg{{188, "bytes", "data"}, {-1, "bytes", "data"}, {188, "bufio", "packet"}}
		}
		for _, c := range cfgs {
			input := in.b
			if c.psize > 188 && in.name == "wellformed" {
				input = reframe(in.b, c.psize, rg)
			}
			runRobustCase(rec, in.name, input, c)
		}
	}
}

// result codes: 0 ok, 1 error, 2 ErrNoMorePackets, 3 panic
func runRobustCase(rec *recorder, name string, input []byte, c robustCfg) {
	base := c.reader
	if base == "bufio16" || base == "bufio190" {
		base = "bytes"
	}
	cr := &countReader{r: makeReader(base, input, []int{1})}
	var r io.Reader = cr
	if c.reader == "bytes" {
		r = &countSeekReader{countReader{r: makeReader("bytes", input, nil)}}
		cr = &r.(*countSeekReader).countReader
	}
	if c.reader == "bufio" || c.reader == "bufio16" || c.reader == "bufio190" { // the library must see the *bufio.Reader itself
		cr = &countReader{r: makeReader("bytes", input, nil)}
		size := map[string]int{"bufio": 4096, "bufio16": 16, "bufio190": 190}[c.reader]
		r = bufio.NewReaderSize(cr, size)
	}
	dmx := newDemuxer(r, demuxRun{PSize: c.psize})
	bound := len(input) + 3
	var res, cons []int
	eofAt := -1
	for k := 0; k < bound+2; k++ {
		code := 0
		atomic.StoreInt64(&watchdogDeadline, time.Now().Add(20*time.Second).UnixNano())
		p := safeCall(func() {
			var err error
			if c.api == "packet" {
				_, err = dmx.NextPacket()
			} else {
				_, err = dmx.NextData()
			}
			if err == astits.ErrNoMorePackets {
				code = 2
			} else if err != nil {
				code = 1
			}
		})
		atomic.StoreInt64(&watchdogDeadline, 0)
		if p != nil {
			code = 3
		}
		res = append(res, code)
		cons = append(cons, cr.pulled)
		if code == 2 && eofAt < 0 {
			eofAt = k
		}
		if eofAt >= 0 && k >= eofAt+2 {
			break
		}
	}
	rec.ev(M{"ev": "case", "input": name, "len": len(input), "psize": c.psize, "reader": c.reader, "api": c.api, "res": res, "cons": cons})
}
