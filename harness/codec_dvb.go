package main

import (
	"encoding/json"
	"fmt"
	"time"

	"github.com/asticode/go-astits"
)

// ---------- C15: DVB date/time and BCD durations (through the verif-tagged exports of dvb.go) ----------

type dvbScenario struct {
	SID  string `json:"sid"`
	Kind string `json:"kind"`
	Seed uint64 `json:"seed"`
	Part string `json:"part"` // days | times | encdays | enctimes | dur16 | dur24 | raw16 | raw24 | wdur
	Lo   int    `json:"lo"`
	Hi   int    `json:"hi"`
	Step int    `json:"step"`
}

func errStr(err error) string {
	if err == nil {
		return "nil"
	}
	return "err"
}

func runDVB(line []byte, rec *recorder) {
	var sc dvbScenario
	if err := json.Unmarshal(line, &sc); err != nil {
		fatal("bad dvb scenario: %v", err)
	}
	if sc.Step <= 0 {
		sc.Step = 1
	}
	rec.ev(M{"ev": "reset", "t": sc.SID, "kind": "dvb", "part": sc.Part})
	rg := newRng(sc.Seed ^ hashStr(sc.SID))
	dec := func(b []byte) {
		var t time.Time
		var err error
		if p := safeCall(func() { t, err = astits.VerifParseDVBTime(b) }); p != nil {
			rec.ev(M{"ev": "panic", "what": fmt.Sprintf("parseDVBTime(%v): %v", b, p)})
			return
		}
		u := t.Unix()
		day := u / 86400
		sod := u % 86400
		if sod < 0 {
			sod += 86400
			day--
		}
		tu := t.UTC()
		rec.ev(M{"ev": "dec", "b": ints(b), "err": errStr(err), "day": int(day), "sod": int(sod), "y": tu.Year(), "m": int(tu.Month()), "d": tu.Day()})
		// the same five bytes where a stream carries them: the start_time of an EIT event and the UTC_time of a TOT, through the section parser
		mjd := int(b[0])<<8 | int(b[1])
		if mjd == 15079 || mjd == 65535 || mjd == 40587 || mjd%97 == 0 {
			for _, via := range []string{"eit", "tot"} {
				var sec []byte
				if via == "eit" {
					body := []byte{0x00, 0x01, 0xc1, 0, 0, 0x00, 0x02, 0x00, 0x03, 0, 0x4e, 0x00, 0x07}
					body = append(append(body, b...), 0x01, 0x30, 0x00, 0x80, 0x00)
					sec = append([]byte{0x4e, 0xf0 | byte((len(body)+4)>>8), byte(len(body) + 4)}, body...)
				} else {
					body := append(append([]byte(nil), b...), 0xf0, 0x00)
					sec = append([]byte{0x73, 0x70 | byte((len(body)+4)>>8), byte(len(body) + 4)}, body...)
				}
				c := astits.VerifComputeCRC32(sec)
				sec = append(sec, byte(c>>24), byte(c>>16), byte(c>>8), byte(c))
				var d *astits.PSIData
				var perr error
				if p := safeCall(func() { d, perr = astits.VerifParsePSIData(append([]byte{0}, sec...)) }); p != nil {
					rec.ev(M{"ev": "panic", "what": fmt.Sprintf("parsePSIData(%s with time %v): %v", via, b, p)})
					continue
				}
				var tt time.Time
				found := false
				if perr == nil && d != nil && len(d.Sections) == 1 && d.Sections[0].Syntax != nil && d.Sections[0].Syntax.Data != nil {
					sd := d.Sections[0].Syntax.Data
					if via == "eit" && sd.EIT != nil && len(sd.EIT.Events) == 1 {
						tt, found = sd.EIT.Events[0].StartTime, true
					}
					if via == "tot" && sd.TOT != nil {
						tt, found = sd.TOT.UTCTime, true
					}
				}
				if !found && perr == nil {
					perr = fmt.Errorf("no %s decoded", via)
				}
				u2 := tt.Unix()
				day2, sod2 := u2/86400, u2%86400
				if sod2 < 0 {
					sod2 += 86400
					day2--
				}
				t2 := tt.UTC()
				rec.ev(M{"ev": "dec", "via": via, "b": ints(b), "err": errStr(perr), "day": int(day2), "sod": int(sod2), "y": t2.Year(), "m": int(t2.Month()), "d": t2.Day()})
			}
		}
	}
	subsec := []int{0, 0, 0, 1, 499999999, 500000000, 999999999}
	enc := func(y, m, d, h, mi, s int) {
		var b []byte
		var n int
		var err error
		// a sub-second part is not representable in the five bytes: the second it belongs to is what is encoded
		ns := subsec[rg.intn(len(subsec))]
		// the same instant expressed in another location: the five bytes are those of its UTC date and time
		t := time.Date(y, time.Month(m), d, h, mi, s, ns, time.UTC)
		if off := []int{0, 0, 0, -5, 2, 14, -12, 9}[rg.intn(8)]; off != 0 {
			t = t.In(time.FixedZone("zone", off*3600+1800*(off&1)))
		}
		if p := safeCall(func() { b, n, err = astits.VerifWriteDVBTime(t) }); p != nil {
			rec.ev(M{"ev": "panic", "what": fmt.Sprintf("writeDVBTime: %v", p)})
			return
		}
		rec.ev(M{"ev": "enc", "y": y, "m": m, "d": d, "h": h, "mi": mi, "s": s, "b": ints(b), "n": n, "err": errStr(err)})
	}
	dur := func(w int, b []byte) {
		var dd time.Duration
		var err error
		if p := safeCall(func() {
			if w == 16 {
				dd, err = astits.VerifParseDVBDurationMinutes(b)
			} else {
				dd, err = astits.VerifParseDVBDurationSeconds(b)
			}
		}); p != nil {
			rec.ev(M{"ev": "panic", "what": fmt.Sprintf("parseDVBDuration(%v): %v", b, p)})
			return
		}
		rec.ev(M{"ev": "dur", "w": w, "b": ints(b), "err": errStr(err), "secs": int(dd / time.Second), "exact": dd%time.Second == 0})
	}
	bcd2 := func(n int) byte { return byte(n/10<<4 | n%10) }
	civil := func(mjd int) (int, int, int) { // day number -> date by stepping time.Time (only used to choose inputs for the encoder)
		t := time.Date(1900, 3, 1, 0, 0, 0, 0, time.UTC).AddDate(0, 0, mjd-15079)
		return t.Year(), int(t.Month()), t.Day()
	}
	switch sc.Part {
	case "days": // every MJD in [lo, hi) at three times of day
		for mjd := sc.Lo; mjd < sc.Hi; mjd += sc.Step {
			for _, hms := range [][3]int{{0, 0, 0}, {12, 45, 0}, {23, 59, 59}} {
				dec([]byte{byte(mjd >> 8), byte(mjd), bcd2(hms[0]), bcd2(hms[1]), bcd2(hms[2])})
			}
		}
	case "times": // every second of the day in [lo, hi) on a few days
		for _, mjd := range []int{15079, 40587, 49273, 51544, 59000, 65535, 15079 + rg.intn(50000)} {
			for sod := sc.Lo; sod < sc.Hi; sod += sc.Step {
				dec([]byte{byte(mjd >> 8), byte(mjd), bcd2(sod / 3600), bcd2(sod / 60 % 60), bcd2(sod % 60)})
			}
		}
	case "encdays":
		for mjd := sc.Lo; mjd < sc.Hi; mjd += sc.Step {
			y, m, d := civil(mjd)
			sod := rg.intn(86400)
			enc(y, m, d, 0, 0, 0)
			enc(y, m, d, sod/3600, sod/60%60, sod%60)
			enc(y, m, d, 23, 59, 59)
			// the neighbouring days straight afterwards and the day again: the result may not depend on what was encoded before
			if mjd < 65535 {
				y2, m2, d2 := civil(mjd + 1)
				enc(y2, m2, d2, 0, 0, 0)
			}
			sod = rg.intn(86400)
			enc(y, m, d, sod/3600, sod/60%60, sod%60)
			if mjd > 15079 {
				y0, m0, d0 := civil(mjd - 1)
				enc(y0, m0, d0, 23, 59, 59)
				enc(y, m, d, 0, 0, 0)
			}
			// days whose (year, month, day) fields differ from this one's in a few bits only, then the day again
			for _, off := range []int{16, -16, 15, 31} {
				if mjd+off >= 15079 && mjd+off <= 65535 && (mjd+off)%4 == 0 {
					y3, m3, d3 := civil(mjd + off)
					enc(y3, m3, d3, 0, 0, 0)
					enc(y, m, d, 12, 0, 0)
				}
			}
		}
	case "enchist": // random walks over neighbouring days and times of day, decodes interleaved
		for k := 0; k < sc.Hi; k++ {
			mjd := 15079 + rg.intn(65536-15079)
			for j := 0; j < 12; j++ {
				mj := mjd + []int{-2, -1, 0, 1, 2, 16, -16, 15, 17, 31, -31, 365, 366}[rg.intn(13)]
				if mj < 15079 || mj > 65535 {
					continue
				}
				y, m, d := civil(mj)
				sod := []int{0, 1, 43200, 86399, rg.intn(86400)}[rg.intn(5)]
				enc(y, m, d, sod/3600, sod/60%60, sod%60)
				if rg.intn(3) == 0 {
					dec([]byte{byte(mj >> 8), byte(mj), bcd2(sod / 3600), bcd2(sod / 60 % 60), bcd2(sod % 60)})
				}
			}
		}
	case "enctimes":
		for _, mjd := range []int{15079, 49273, 51603, 65535} {
			y, m, d := civil(mjd)
			for sod := sc.Lo; sod < sc.Hi; sod += sc.Step {
				enc(y, m, d, sod/3600, sod/60%60, sod%60)
			}
		}
	case "dur16": // all valid hh:mm BCD values
		for v := sc.Lo; v < sc.Hi; v += sc.Step {
			dur(16, []byte{bcd2(v / 100), bcd2(v % 100)})
		}
	case "dur24":
		for v := sc.Lo; v < sc.Hi; v += sc.Step {
			dur(24, []byte{bcd2(v / 10000), bcd2(v / 100 % 100), bcd2(v % 100)})
		}
	case "raw16":
		for v := sc.Lo; v < sc.Hi; v += sc.Step {
			dur(16, []byte{byte(v >> 8), byte(v)})
		}
	case "raw24":
		for v := sc.Lo; v < sc.Hi; v += sc.Step {
			dur(24, []byte{byte(v >> 16), byte(v >> 8), byte(v)})
			if v%257 == 0 {
				dec([]byte{0xc0, 0x79, byte(v >> 16), byte(v >> 8), byte(v)})
			}
		}
	case "wdur": // durations hh:mm(:ss) with hh <= 99
		for v := sc.Lo; v < sc.Hi; v += sc.Step {
			secs := v
			for _, w := range []int{16, 24} {
				var b []byte
				var n int
				var err error
				s := secs
				if w == 16 {
					s = secs / 60 * 60
				}
				if p := safeCall(func() {
					if w == 16 {
						b, n, err = astits.VerifWriteDVBDurationMinutes(time.Duration(s) * time.Second)
					} else {
						b, n, err = astits.VerifWriteDVBDurationSeconds(time.Duration(s) * time.Second)
					}
				}); p != nil {
					rec.ev(M{"ev": "panic", "what": fmt.Sprintf("writeDVBDuration: %v", p)})
					continue
				}
				rec.ev(M{"ev": "wdur", "w": w, "secs": s, "b": ints(b), "n": n, "err": errStr(err)})
			}
		}
	default:
		fatal("unknown dvb part %q", sc.Part)
	}
}
